//@target crates/trippy-core/src/state.rs
//@crate trippy-core
#[cfg(test)]
mod verif_native_state {
    use super::*;
    use crate::probe::{IcmpPacketCode, ProbeComplete};
    use crate::strategy::CompletionReason;
    use crate::types::{Port, Sequence, TraceId};
    use std::net::Ipv4Addr;
    use std::time::SystemTime;

    fn complete(ttl: u8, round: usize, host: [u8; 4]) -> ProbeStatus {
        ProbeStatus::Complete(ProbeComplete {
            sequence: Sequence(33000 + u16::from(ttl)),
            identifier: TraceId(1),
            src_port: Port(0),
            dest_port: Port(0),
            ttl: TimeToLive(ttl),
            round: RoundId(round),
            sent: SystemTime::now(),
            host: IpAddr::V4(Ipv4Addr::from(host)),
            received: SystemTime::now(),
            icmp_packet_type: IcmpPacketType::TimeExceeded(IcmpPacketCode(0)),
            tos: None,
            expected_udp_checksum: None,
            actual_udp_checksum: None,
            extensions: None,
        })
    }

    //@witness core_state_flows State::update_from_round
    /// C15: once max_flows is reached, a round matching an existing flow must still be attributed to it.
    #[test]
    fn w_c15_existing_flow_not_updated_at_max_flows() {
        let mut state = State::new(StateConfig { max_samples: 10, max_flows: 2 });
        let a = [complete(1, 0, [10, 0, 0, 1]), complete(2, 0, [10, 0, 0, 2])];
        let b = [complete(1, 1, [10, 0, 0, 1]), complete(2, 1, [10, 0, 0, 3])];
        let a2 = [complete(1, 2, [10, 0, 0, 1]), complete(2, 2, [10, 0, 0, 2])];
        state.update_from_round(&Round::new(&a, TimeToLive(2), CompletionReason::TargetFound));
        state.update_from_round(&Round::new(&b, TimeToLive(2), CompletionReason::TargetFound));
        assert_eq!(state.flows().len(), 2);
        state.update_from_round(&Round::new(&a2, TimeToLive(2), CompletionReason::TargetFound));
        assert_eq!(state.flows().len(), 2);
        assert_eq!(state.round_count(State::default_flow_id()), 3);
        assert_eq!(state.round_count(FlowId(1)), 2, "the third round matches flow 1 but was not attributed to it");
        assert_eq!(state.round_flow_id(), FlowId(1));
    }

    fn failed(ttl: u8, round: usize) -> ProbeStatus {
        ProbeStatus::Failed(crate::probe::ProbeFailed {
            sequence: Sequence(33000 + u16::from(ttl)),
            identifier: TraceId(1),
            src_port: Port(0),
            dest_port: Port(0),
            ttl: TimeToLive(ttl),
            round: RoundId(round),
            sent: SystemTime::now(),
        })
    }

    //@witness kani k_round_flow_positions_2
    /// C15 (D-C15b): a probe that failed to send still occupies its ttl position in the round's flow; the hop seen at
    /// ttl 2 must not be recorded as the hop of ttl 1.
    #[test]
    fn w_c15_failed_probe_shifts_flow_positions() {
        let mut state = State::new(StateConfig { max_samples: 10, max_flows: 4 });
        let r0 = [failed(1, 0), complete(2, 0, [10, 0, 0, 2])];
        let r1 = [complete(1, 1, [10, 0, 0, 1]), complete(2, 1, [10, 0, 0, 2])];
        state.update_from_round(&Round::new(&r0, TimeToLive(2), CompletionReason::TargetFound));
        state.update_from_round(&Round::new(&r1, TimeToLive(2), CompletionReason::TargetFound));
        // the same path was seen twice (10.0.0.2 at ttl 2; ttl 1 unknown in the first round): one flow, both rounds in it
        assert_eq!(state.flows().len(), 1, "the second round contradicts nothing seen in the first, yet a second flow was created");
        assert_eq!(state.round_flow_id(), FlowId(1));
        assert_eq!(state.round_count(FlowId(1)), 2);
    }
}
