//@target crates/trippy-core/src/builder.rs
//@crate trippy-core
#[cfg(test)]
mod verif_native_builder {
    use super::*;
    use crate::Port;
    use std::net::Ipv4Addr;

    //@witness core_builder Builder::build
    /// C16: configurations the strategy cannot run (unimplemented!() arms, ttl-1 underflow) must be rejected by build()
    #[test]
    fn w_c16_builder_accepts_unrunnable_configs() {
        let t = IpAddr::V4(Ipv4Addr::new(1, 2, 3, 4));
        assert!(Builder::new(t).protocol(Protocol::Udp).port_direction(PortDirection::FixedBoth(Port(5000), Port(33434))).build().is_err(),
            "udp / classic / FixedBoth accepted (probe_udp_data reaches unimplemented!())");
        assert!(Builder::new(t).protocol(Protocol::Tcp).port_direction(PortDirection::FixedBoth(Port(5000), Port(80))).build().is_err(),
            "tcp / FixedBoth accepted (probe_tcp_data reaches unimplemented!())");
        assert!(Builder::new(t).first_ttl(0).build().is_err(), "first_ttl 0 accepted (ttl - 1 underflows in the aggregator)");
        assert!(Builder::new(t).first_ttl(9).max_ttl(3).build().is_err(), "first_ttl > max_ttl accepted");
    }
}
