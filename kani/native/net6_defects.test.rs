//@target crates/trippy-core/src/net/ipv6.rs
//@crate trippy-core
#[cfg(test)]
mod verif_native_net6 {
    use super::*;
    use trippy_packet::ipv6::Ipv6Packet as V6;

    fn quoted(udp_len: u16, payload: &[u8]) -> Vec<u8> {
        // 40-octet IPv6 header (next header = 17) + UDP header with the given length field + payload
        let mut b = vec![0u8; 48 + payload.len()];
        b[0] = 0x60;
        let pl = (8 + payload.len()) as u16;
        b[4..6].copy_from_slice(&pl.to_be_bytes());
        b[6] = 17;
        b[44..46].copy_from_slice(&udp_len.to_be_bytes());
        b[48..].copy_from_slice(payload);
        b
    }

    //@witness core_net_build core_net::ipv6::extract_udp_packet
    /// C04: a quoted IPv6/UDP datagram whose UDP length field is below 8 must not crash the receive path.
    #[test]
    fn w_c04_quoted_udp_length_below_8_ipv6() {
        let b = quoted(3, &[0u8; 8]);
        let p = V6::new_view(&b).unwrap();
        let _ = extract_udp_packet(&p);
    }

    //@witness core_net_build core_net::ipv6::Ipv6::extract_probe_proto_resp
    /// C04: Dublin marker present but declared UDP length below 8 + 6: `udp_payload_len - MAGIC.len()` must not underflow.
    #[test]
    fn w_c04_quoted_udp_magic_with_short_length_ipv6() {
        let b = quoted(10, b"trippy\0\0");
        let p = V6::new_view(&b).unwrap();
        let c = Ipv6 { protocol: Protocol::Udp, ..Default::default() };
        let _ = c.extract_probe_proto_resp(&p);
    }
}
