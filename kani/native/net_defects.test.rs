//@target crates/trippy-core/src/net/ipv4.rs
//@crate trippy-core
#[cfg(test)]
mod verif_native_net4 {
    use super::*;
    use crate::error::IoResult;
    use crate::mocket_read;
    use crate::net::socket::MockSocket;
    use std::str::FromStr;

    //@witness core_net_build core_net::ipv4::extract_udp_packet
    /// C04: an ICMP Time Exceeded quoting a UDP datagram whose length field is below 8 must not crash the receive path.
    #[test]
    fn w_c04_quoted_udp_length_below_8_ipv4() {
        // the packet of test_recv_icmp_probe_time_exceeded_udp_no_extensions with the quoted UDP length 0x0040 -> 0x0003
        let buf = hex_literal::hex!(
            "
            45 c0 00 70 0e c8 00 00 40 01 e7 9e c0 a8 01 01
            c0 a8 01 15 0b 00 12 98 00 00 00 00 45 00 00 54
            90 69 00 00 01 11 0b ea c0 a8 01 15 8e fa cc 8e
            7c 55 81 06 00 03 e4 cb 00 00 00 00 00 00 00 00
            00 00 00 00 00 00 00 00 00 00 00 00 00 00 00 00
            00 00 00 00 00 00 00 00 00 00 00 00 00 00 00 00
            00 00 00 00 00 00 00 00 00 00 00 00 00 00 00 00
           "
        );
        let mut mocket = MockSocket::new();
        mocket.expect_read().times(1).returning(mocket_read!(buf));
        let ipv4 = Ipv4 {
            protocol: Protocol::Udp,
            src_addr: Ipv4Addr::from_str("192.168.1.21").unwrap(),
            dest_addr: Ipv4Addr::from_str("142.250.204.142").unwrap(),
            icmp_extension_mode: IcmpExtensionParseMode::Disabled,
            ..Default::default()
        };
        let _ = ipv4.recv_icmp_probe(&mut mocket); // any value or error is fine; a panic is not
    }
}
