//@target crates/trippy-core/src/net/channel.rs
//@crate trippy-core
#[cfg(test)]
mod verif_native_channel {
    use super::*;
    use crate::error::IoResult;
    use crate::net::socket::SocketError;
    use crate::types::{Flags, PacketSize, PayloadPattern, RoundId, Sequence, TimeToLive, TraceId, TypeOfService};
    use crate::IcmpExtensionParseMode;
    use std::net::{Ipv4Addr, Ipv6Addr, SocketAddr};

    /// a socket of a quiet network: every call succeeds, nothing is ever readable, no connect ever completes
    /// (the SYNs are dropped by a filtering hop - the ordinary case a TCP traceroute is used for)
    struct QuietSocket;
    impl Socket for QuietSocket {
        fn new_icmp_send_socket_ipv4(_: bool) -> IoResult<Self> { Ok(Self) }
        fn new_icmp_send_socket_ipv6(_: bool) -> IoResult<Self> { Ok(Self) }
        fn new_udp_send_socket_ipv4(_: bool) -> IoResult<Self> { Ok(Self) }
        fn new_udp_send_socket_ipv6(_: bool) -> IoResult<Self> { Ok(Self) }
        fn new_recv_socket_ipv4(_: Ipv4Addr, _: bool) -> IoResult<Self> { Ok(Self) }
        fn new_recv_socket_ipv6(_: Ipv6Addr, _: bool) -> IoResult<Self> { Ok(Self) }
        fn new_stream_socket_ipv4() -> IoResult<Self> { Ok(Self) }
        fn new_stream_socket_ipv6() -> IoResult<Self> { Ok(Self) }
        fn new_udp_dgram_socket_ipv4() -> IoResult<Self> { Ok(Self) }
        fn new_udp_dgram_socket_ipv6() -> IoResult<Self> { Ok(Self) }
        fn bind(&mut self, _: SocketAddr) -> IoResult<()> { Ok(()) }
        fn set_tos(&mut self, _: u32) -> IoResult<()> { Ok(()) }
        fn set_ttl(&mut self, _: u32) -> IoResult<()> { Ok(()) }
        fn set_reuse_port(&mut self, _: bool) -> IoResult<()> { Ok(()) }
        fn set_header_included(&mut self, _: bool) -> IoResult<()> { Ok(()) }
        fn set_unicast_hops_v6(&mut self, _: u8) -> IoResult<()> { Ok(()) }
        fn connect(&mut self, _: SocketAddr) -> IoResult<()> { Ok(()) }
        fn send_to(&mut self, _: &[u8], _: SocketAddr) -> IoResult<()> { Ok(()) }
        fn is_readable(&mut self, _: Duration) -> IoResult<bool> { Ok(false) }
        fn is_writable(&mut self) -> IoResult<bool> { Ok(false) }
        fn recv_from(&mut self, _: &mut [u8]) -> IoResult<(usize, Option<SocketAddr>)> { Ok((0, None)) }
        fn read(&mut self, _: &mut [u8]) -> IoResult<usize> { Ok(0) }
        fn shutdown(&mut self) -> IoResult<()> { Ok(()) }
        fn peer_addr(&mut self) -> IoResult<Option<SocketAddr>> { Ok(None) }
        fn take_error(&mut self) -> IoResult<Option<SocketError>> { Ok(None) }
        fn icmp_error_info(&mut self) -> IoResult<IpAddr> { Ok(IpAddr::V4(Ipv4Addr::UNSPECIFIED)) }
    }

    //@witness core_net_build core_net::channel::Channel::send_probe
    /// C16 / C09: a configuration the builder accepts (tcp, connect timeout longer than the time in which 256 probes
    /// are sent) must keep tracing; the 257th pending connection must not crash the tracer.
    #[test]
    fn w_c16_tcp_probe_table_overflow() {
        let mut channel: Channel<QuietSocket> = Channel {
            protocol: Protocol::Tcp,
            read_timeout: Duration::from_millis(0),
            tcp_connect_timeout: Duration::from_secs(30),
            send_socket: None,
            recv_socket: QuietSocket,
            tcp_probes: ArrayVec::new(),
            family_config: FamilyConfig::V4(Ipv4 {
                src_addr: Ipv4Addr::new(10, 0, 0, 1),
                dest_addr: Ipv4Addr::new(10, 0, 0, 2),
                byte_order: platform::Ipv4ByteOrder::Network,
                packet_size: PacketSize(84),
                payload_pattern: PayloadPattern(0),
                privilege_mode: PrivilegeMode::Privileged,
                tos: TypeOfService(0),
                protocol: Protocol::Tcp,
                icmp_extension_mode: IcmpExtensionParseMode::Disabled,
            }),
        };
        // 13 rounds of 24 probes (the default max-inflight) towards a target that drops the SYNs, one receive per send
        // exactly as Strategy::run does
        for i in 0..300_u16 {
            let probe = Probe::new(
                Sequence(33000 + i),
                TraceId(0),
                Port(33000 + i),
                Port(80),
                TimeToLive(1 + (i % 24) as u8),
                RoundId(usize::from(i / 24)),
                SystemTime::now(),
                Flags::empty(),
            );
            channel.send_probe(probe).unwrap();
            assert!(channel.recv_probe().unwrap().is_none());
        }
    }

    //@witness core_builder Builder::build source-and-target
    /// C16: a source address of the other address family must be rejected up front by the builder; today it is
    /// accepted and Channel::connect then reaches `unreachable!()` (the tracer crashes when tracing starts).
    #[test]
    fn w_c16_mixed_address_families_accepted_then_crash() {
        let target = IpAddr::V4(Ipv4Addr::new(10, 0, 0, 2));
        let source = IpAddr::V6(Ipv6Addr::LOCALHOST);
        let built = crate::Builder::new(target).source_addr(Some(source)).build();
        if built.is_err() {
            return;   // rejected up front: the property holds
        }
        // what Tracer::run does next with this configuration (SourceAddr::validate accepts any local address)
        let config = ChannelConfig { source_addr: source, target_addr: target, ..ChannelConfig::default() };
        let crashed = std::panic::catch_unwind(|| Channel::<QuietSocket>::connect(&config).is_ok()).is_err();
        assert!(!crashed, "the builder accepted source ::1 for target 10.0.0.2 and Channel::connect panicked on it");
    }
}
