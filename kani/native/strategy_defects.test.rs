//@target crates/trippy-core/src/strategy.rs
//@crate trippy-core
// Native demonstrations (plain `cargo test`) of obligations that Verus failed on the real code and for
// which no Kani harness can build the state (TracerState holds a 512-slot buffer).  Each test is the
// failing input of one obligation; it FAILS on a tree with the defect and PASSES on a repaired tree.
#[cfg(test)]
mod verif_native_strategy {
    use super::*;
    use crate::net::MockNetwork;
    use crate::probe::{IcmpPacketCode, ProtocolResponse, Response, ResponseData, IcmpProtocolResponse, UdpProtocolResponse};
    use crate::{MaxInflight, MaxRounds, Port};
    use std::net::{Ipv4Addr, Ipv6Addr};
    use std::num::NonZeroUsize;
    use std::sync::atomic::{AtomicUsize, Ordering};
    use std::sync::Arc;

    fn cfg() -> StrategyConfig {
        StrategyConfig {
            target_addr: IpAddr::V4(Ipv4Addr::new(10, 0, 0, 9)),
            protocol: Protocol::Icmp,
            trace_identifier: TraceId(7),
            max_rounds: None,
            first_ttl: TimeToLive(1),
            max_ttl: TimeToLive(30),
            grace_duration: Duration::from_millis(0),
            max_inflight: MaxInflight(24),
            initial_sequence: Sequence(33434),
            multipath_strategy: MultipathStrategy::Classic,
            port_direction: PortDirection::None,
            min_round_duration: Duration::from_millis(0),
            max_round_duration: Duration::from_millis(0),
        }
    }

    //@witness core_strategy state::TracerState::complete_probe
    /// C03: a response naming a sequence that has not been sent in the current round (its slot still holds an
    /// awaited probe of an earlier round) must leave the round's bookkeeping unchanged.
    #[test]
    fn w_c03_not_yet_issued_sequence_changes_nothing() {
        let c = cfg();
        let mut st = state::TracerState::new(c);
        for _ in 0..10 {
            let _ = st.next_probe(SystemTime::now());
        }
        st.advance_round(TimeToLive(1)); // round 0: ten probes, none answered
        let _ = st.next_probe(SystemTime::now());
        let _ = st.next_probe(SystemTime::now()); // round 1: two probes (ttl 1, 2)
        let data = ResponseData::new(
            SystemTime::now(),
            c.target_addr,
            ProtocolResponse::Icmp(IcmpProtocolResponse::new(7, 33434 + 10 + 5, None)),
        );
        let resp = StrategyResponse::from((Response::EchoReply(data, IcmpPacketCode(0)), &c));
        assert!(st.in_round(resp.sequence));
        st.complete_probe(resp);
        assert!(!st.target_found(), "target_found set by a response to a sequence never sent in this round");
        assert_eq!(st.max_received_ttl(), None);
        assert_eq!(st.target_ttl(), None);
    }

    //@witness core_strategy ProtocolStrategyResponse::from
    /// C04: a quoted Dublin/IPv6 UDP datagram whose payload length overflows `initial_sequence + len` must not panic.
    #[test]
    fn w_c04_dublin_ipv6_payload_len_overflow() {
        let c = StrategyConfig {
            target_addr: IpAddr::V6(Ipv6Addr::LOCALHOST),
            protocol: Protocol::Udp,
            multipath_strategy: MultipathStrategy::Dublin,
            port_direction: PortDirection::FixedSrc(Port(5000)),
            initial_sequence: Sequence(64511),
            ..cfg()
        };
        let pr = ProtocolResponse::Udp(UdpProtocolResponse::new(0, c.target_addr, 5000, 64511, None, 0, 0, 2000, true));
        let r = ProtocolStrategyResponse::from((pr, &c));
        assert_eq!(r.sequence, Sequence(u16::MAX));
    }

    //@witness core_strategy Strategy::send_request
    /// C06: every round sends at least the first-ttl probe, also when first-ttl >= max-inflight.
    #[test]
    fn w_c06_first_ttl_ge_max_inflight_sends_nothing() {
        let c = StrategyConfig {
            first_ttl: TimeToLive(30),
            max_ttl: TimeToLive(40),
            max_inflight: MaxInflight(24),
            max_rounds: Some(MaxRounds(NonZeroUsize::new(3).unwrap())),
            ..cfg()
        };
        let sent = Arc::new(AtomicUsize::new(0));
        let sent2 = sent.clone();
        let mut network = MockNetwork::new();
        network.expect_send_probe().returning(move |_| {
            sent2.fetch_add(1, Ordering::SeqCst);
            Ok(())
        });
        network.expect_recv_probe().returning(|| Ok(None));
        let strategy = Strategy::new(&c, |_| {});
        strategy.run(network).unwrap();
        assert!(sent.load(Ordering::SeqCst) >= 3, "no probe was sent in 3 rounds (first_ttl=30, max_inflight=24)");
    }

    //@witness core_strategy lemma_prev_round_rejected_wrap_tcp
    /// C07 (known finding D-C07): TCP rounds with many re-issued probes; after the sequence wrap a sequence issued in the
    /// immediately preceding round is again in_round *and* issued in the current round.
    #[test]
    fn w_c07_tcp_wrap_overlap() {
        let c = StrategyConfig {
            protocol: Protocol::Tcp,
            port_direction: PortDirection::FixedDest(Port(80)),
            initial_sequence: Sequence(64511),
            ..cfg()
        };
        let mut st = state::TracerState::new(c);
        // round A: 1 probe + 400 re-issues (port collisions): sequences 64511..64912, no wrap
        let _ = st.next_probe(SystemTime::now());
        for _ in 0..400 { let _ = st.reissue_probe(SystemTime::now()); }
        st.advance_round(TimeToLive(1));
        // round B: starts at 64912, 1 probe + 300 re-issues: sequences 64912..65213 >= MAX_SEQUENCE -> wrap at the end
        let _ = st.next_probe(SystemTime::now());
        for _ in 0..300 { let _ = st.reissue_probe(SystemTime::now()); }
        assert!(st.in_round(Sequence(64960))); // 64960 is issued in round B
        st.advance_round(TimeToLive(1));
        // round C: restarts at 64511; 30 probes, each re-issued 14 times before it is sent: the slots at
        // offsets 14, 29, ..., 449 are Awaited; offset 439 + ... -> sequence 64511 + 449 = 64960 was issued in round B
        for _ in 0..30 {
            let _ = st.next_probe(SystemTime::now());
            for _ in 0..14 { let _ = st.reissue_probe(SystemTime::now()); }
        }
        let late = Sequence(64960);
        let accepted = st.in_round(late) && matches!(st.probe_at(late), ProbeStatus::Awaited(_));
        assert!(!accepted, "sequence 64960 of the preceding round is accepted for a probe of the current round");
    }
}
