//@target crates/trippy-core/src/net/ipv6.rs
//@crate trippy-core
// Kani harnesses on the real send / receive functions of net/ipv6.rs (C11, C02, C04 b, C13, C07 O5).
#[cfg(kani)]
mod verif_kani_net6 {
    use super::*;
    use crate::net::ipv4::verif_kani_net4::{be16, ones_sum, stub_now, KSock, CAP};
    use crate::{Flags, Port, RoundId, TimeToLive};
    use std::net::SocketAddrV6;

    fn any_cfg(protocol: Protocol, ps: u16) -> Ipv6 {
        Ipv6 {
            src_addr: Ipv6Addr::from(kani::any::<[u8; 16]>()),
            dest_addr: Ipv6Addr::from(kani::any::<[u8; 16]>()),
            packet_size: PacketSize(ps),
            payload_pattern: PayloadPattern(kani::any()),
            privilege_mode: PrivilegeMode::Privileged,
            protocol,
            icmp_extension_mode: IcmpExtensionParseMode::Disabled,
            initial_sequence: Sequence(kani::any()),
        }
    }
    fn any_probe(flags: Flags) -> Probe {
        let ttl: u8 = kani::any();
        kani::assume(ttl >= 1 && ttl <= 254);
        Probe::new(Sequence(kani::any()), TraceId(kani::any()), Port(kani::any()), Port(kani::any()), TimeToLive(ttl), RoundId(0), SystemTime::UNIX_EPOCH, flags)
    }
    fn pseudo6(c: &Ipv6, proto: u32, len: u32) -> u32 {
        let s = c.src_addr.octets(); let d = c.dest_addr.octets();
        let mut sum = proto + len;
        let mut i = 0;
        while i < 16 { sum += u32::from(be16(&s, i)) + u32::from(be16(&d, i)); i += 2; }
        sum
    }

    //@harness k6_dispatch_icmp_53 mode=bounded bound="packet size 53 (odd payload of 5); all hop limits, pattern, identifier, sequence, addresses" timeout=1200
    #[kani::proof]
    #[kani::unwind(24)]
    fn k6_dispatch_icmp_53() {
        let c = any_cfg(Protocol::Icmp, 53);
        let probe = any_probe(Flags::empty());
        let mut s = KSock::new();
        assert!(c.dispatch_icmp_probe(&mut s, probe.clone()).is_ok());
        let len = s.sent_len;
        assert!(len == 53 - 40);                                 // the kernel adds the 40-octet IPv6 header
        assert!(s.sent_addr == Some(SocketAddr::new(IpAddr::V6(c.dest_addr), 0)));
        let b = &s.sent;
        assert!(b[0] == 128 && b[1] == 0);                      // RFC 4443 echo request
        assert!(be16(b, 4) == probe.identifier.0 && be16(b, 6) == probe.sequence.0);
        let mut i = 8;
        while i < len { assert!(b[i] == c.payload_pattern.0); i += 1; }
        assert!(ones_sum(b, len, pseudo6(&c, 58, len as u32)) == 0xffff);
    }

    //@harness k6_dispatch_udp_dublin mode=bounded bound="sequence - initial sequence <= 9 (payload = marker + <= 9 octets); all ports, addresses, pattern" timeout=1500
    #[kani::proof]
    #[kani::unwind(24)]
    fn k6_dispatch_udp_dublin() {
        let c = any_cfg(Protocol::Udp, 64);
        let probe = any_probe(Flags::DUBLIN_IPV6_PAYLOAD_LENGTH);
        kani::assume(probe.sequence.0 >= c.initial_sequence.0 && probe.sequence.0 - c.initial_sequence.0 <= 9);
        let mut s = KSock::new();
        assert!(c.dispatch_udp_probe(&mut s, probe.clone()).is_ok());
        let len = s.sent_len;
        let plen = usize::from(probe.sequence.0 - c.initial_sequence.0);
        assert!(len == 8 + 6 + plen);                           // C02: the payload length carries the sequence (after the marker)
        let b = &s.sent;
        assert!(be16(b, 0) == probe.src_port.0 && be16(b, 2) == probe.dest_port.0);
        assert!(usize::from(be16(b, 4)) == len);
        assert!(b[8..14] == *b"trippy");                        // Dublin marker
        let mut i = 14;
        while i < len { assert!(b[i] == c.payload_pattern.0); i += 1; }
        assert!(ones_sum(b, len, pseudo6(&c, 17, len as u32)) == 0xffff);
    }

    //@harness k6_dublin_payload_fits mode=complete timeout=900
    #[kani::proof]
    #[kani::unwind(8)]
    #[kani::stub(trippy_packet::checksum::udp_ipv6_checksum, stub_udp6_checksum)]
    fn k6_dublin_payload_fits() {
        // C07 O5: for every sequence the allocator can issue in the Dublin/IPv6 regime: a round starts below initial + 512
        // (max_sequence) and, being UDP, issues at most 254 sequences, so sequence - initial <= 511 + 254 = 765
        // the payload slice `dublin_payload[..len + 6]` stays inside the 976-octet buffer and the send succeeds
        let c = any_cfg(Protocol::Udp, 64);
        let probe = any_probe(Flags::DUBLIN_IPV6_PAYLOAD_LENGTH);
        kani::assume(probe.sequence.0 >= c.initial_sequence.0 && probe.sequence.0 - c.initial_sequence.0 <= 765);
        let mut s = KSockBig::new();
        let _ = c.dispatch_udp_probe(&mut s, probe);
    }
    pub fn stub_udp6_checksum(_data: &[u8], _s: Ipv6Addr, _d: Ipv6Addr) -> u16 { kani::any() }
    /// a socket that accepts datagrams of any size (only the length is recorded)
    pub struct KSockBig { pub sent_len: usize }
    impl KSockBig { pub fn new() -> Self { Self { sent_len: 0 } } }
    impl crate::net::socket::Socket for KSockBig {
        fn new_icmp_send_socket_ipv4(_: bool) -> crate::error::IoResult<Self> { Ok(Self::new()) }
        fn new_icmp_send_socket_ipv6(_: bool) -> crate::error::IoResult<Self> { Ok(Self::new()) }
        fn new_udp_send_socket_ipv4(_: bool) -> crate::error::IoResult<Self> { Ok(Self::new()) }
        fn new_udp_send_socket_ipv6(_: bool) -> crate::error::IoResult<Self> { Ok(Self::new()) }
        fn new_recv_socket_ipv4(_: std::net::Ipv4Addr, _: bool) -> crate::error::IoResult<Self> { Ok(Self::new()) }
        fn new_recv_socket_ipv6(_: Ipv6Addr, _: bool) -> crate::error::IoResult<Self> { Ok(Self::new()) }
        fn new_stream_socket_ipv4() -> crate::error::IoResult<Self> { Ok(Self::new()) }
        fn new_stream_socket_ipv6() -> crate::error::IoResult<Self> { Ok(Self::new()) }
        fn new_udp_dgram_socket_ipv4() -> crate::error::IoResult<Self> { Ok(Self::new()) }
        fn new_udp_dgram_socket_ipv6() -> crate::error::IoResult<Self> { Ok(Self::new()) }
        fn bind(&mut self, _: SocketAddr) -> crate::error::IoResult<()> { Ok(()) }
        fn set_tos(&mut self, _: u32) -> crate::error::IoResult<()> { Ok(()) }
        fn set_ttl(&mut self, _: u32) -> crate::error::IoResult<()> { Ok(()) }
        fn set_reuse_port(&mut self, _: bool) -> crate::error::IoResult<()> { Ok(()) }
        fn set_header_included(&mut self, _: bool) -> crate::error::IoResult<()> { Ok(()) }
        fn set_unicast_hops_v6(&mut self, _: u8) -> crate::error::IoResult<()> { Ok(()) }
        fn connect(&mut self, _: SocketAddr) -> crate::error::IoResult<()> { Ok(()) }
        fn send_to(&mut self, buf: &[u8], _: SocketAddr) -> crate::error::IoResult<()> { self.sent_len = buf.len(); Ok(()) }
        fn is_readable(&mut self, _: std::time::Duration) -> crate::error::IoResult<bool> { Ok(true) }
        fn is_writable(&mut self) -> crate::error::IoResult<bool> { Ok(true) }
        fn recv_from(&mut self, _: &mut [u8]) -> crate::error::IoResult<(usize, Option<SocketAddr>)> { Ok((0, None)) }
        fn read(&mut self, _: &mut [u8]) -> crate::error::IoResult<usize> { Ok(0) }
        fn shutdown(&mut self) -> crate::error::IoResult<()> { Ok(()) }
        fn peer_addr(&mut self) -> crate::error::IoResult<Option<SocketAddr>> { Ok(None) }
        fn take_error(&mut self) -> crate::error::IoResult<Option<crate::net::socket::SocketError>> { Ok(None) }
        fn icmp_error_info(&mut self) -> crate::error::IoResult<IpAddr> { Ok(IpAddr::V6(Ipv6Addr::UNSPECIFIED)) }
    }

    fn recv_nopanic(protocol: Protocol, n: usize) {
        let c = any_cfg(protocol, 64);
        let mut s = KSock::new();
        s.rx = kani::any();
        // concrete length (all contents symbolic): symbolic lengths over the 1024-octet receive buffer exhaust memory
        s.rx_len = n;
        s.rx_addr = Some(SocketAddr::V6(SocketAddrV6::new(Ipv6Addr::from(kani::any::<[u8; 16]>()), 0, 0, 0)));
        let _ = c.recv_icmp_probe(&mut s);
    }
    //@harness k6_recv_nopanic_icmp mode=bounded bound="received ICMPv6 message of exactly 72 octets (all contents), extensions disabled" timeout=1500
    #[kani::proof]
    #[kani::unwind(24)]
    #[kani::stub(std::time::SystemTime::now, stub_now)]
    fn k6_recv_nopanic_icmp() { recv_nopanic(Protocol::Icmp, 72); }
    //@harness k6_recv_nopanic_udp mode=bounded bound="received ICMPv6 message of exactly 72 octets (all contents), extensions disabled" timeout=1500
    #[kani::proof]
    #[kani::unwind(24)]
    #[kani::stub(std::time::SystemTime::now, stub_now)]
    fn k6_recv_nopanic_udp() { recv_nopanic(Protocol::Udp, 72); }
    //@harness k6_recv_nopanic_tcp mode=bounded bound="received ICMPv6 message of exactly 72 octets (all contents), extensions disabled" timeout=1500
    #[kani::proof]
    #[kani::unwind(24)]
    #[kani::stub(std::time::SystemTime::now, stub_now)]
    fn k6_recv_nopanic_tcp() { recv_nopanic(Protocol::Tcp, 72); }
}
