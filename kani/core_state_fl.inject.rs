//@target crates/trippy-core/src/state.rs
//@crate trippy-core
//@inside mod state_updater
// is_forward_loss (iterator adapters: skip_while / peekable / all) - bounded stand-in for C05.
#[cfg(kani)]
mod verif_kani_state {
    use super::*;
    use crate::probe::{Probe, ProbeFailed};
    use crate::{IcmpPacketType, RoundId};
    use std::net::IpAddr;
    use crate::types::{Flags, Port, Sequence, TraceId};
    use std::time::SystemTime;

    fn any_status(ttl: u8) -> ProbeStatus {
        let k: u8 = kani::any();
        kani::assume(k < 4);
        let p = Probe::new(Sequence(0), TraceId(0), Port(0), Port(0), TimeToLive(ttl), RoundId(0), SystemTime::UNIX_EPOCH, Flags::empty());
        match k {
            0 => ProbeStatus::Awaited(p),
            1 => ProbeStatus::Failed(p.failed()),
            2 => ProbeStatus::Skipped,
            _ => ProbeStatus::Complete(p.complete(IpAddr::V4(std::net::Ipv4Addr::LOCALHOST), SystemTime::UNIX_EPOCH, IcmpPacketType::NotApplicable, None, None, None, None)),
        }
    }
    fn ttl_of(p: &ProbeStatus) -> Option<u8> {
        match p { ProbeStatus::Awaited(a) => Some(a.ttl.0), ProbeStatus::Complete(c) => Some(c.ttl.0), ProbeStatus::Failed(f) => Some(f.ttl.0), _ => None }
    }

    //@harness k_is_forward_loss_contract mode=bounded bound="rounds of 3 probes with ttl 1,2,3 (any mix of awaited/failed/skipped/complete), awaited ttl 1..=3" timeout=1200
    #[kani::proof]
    #[kani::unwind(6)]
    fn k_is_forward_loss_contract() {
        let probes = [any_status(1), any_status(2), any_status(3)];
        let t: u8 = kani::any();
        kani::assume(t >= 1 && t <= 3);
        let r = is_forward_loss(&probes, TimeToLive(t));
        // oracle from the documentation: there is at least one probe beyond ttl t and every probe from the first such one on
        // is still awaited (or skipped)
        let mut first: Option<usize> = None;
        let mut i = 0;
        while i < 3 { if first.is_none() { if let Some(x) = ttl_of(&probes[i]) { if x > t { first = Some(i); } } } i += 1; }
        let expect = match first {
            None => false,
            Some(f) => { let mut ok = true; let mut j = f; while j < 3 { if !matches!(probes[j], ProbeStatus::Awaited(_) | ProbeStatus::Skipped) { ok = false; } j += 1; } ok }
        };
        assert!(r == expect);
    }

    //@harness k_is_forward_loss_contract_sym mode=bounded bound="rounds of 4 probes, each with any ttl 1..=6 in any order (any mix of awaited/failed/skipped/complete), awaited ttl 1..=6" timeout=1500
    #[kani::proof]
    #[kani::unwind(7)]
    fn k_is_forward_loss_contract_sym() {
        let t1: u8 = kani::any(); let t2: u8 = kani::any(); let t3: u8 = kani::any(); let t4: u8 = kani::any();
        kani::assume(t1 >= 1 && t1 <= 6 && t2 >= 1 && t2 <= 6 && t3 >= 1 && t3 <= 6 && t4 >= 1 && t4 <= 6);
        let probes = [any_status(t1), any_status(t2), any_status(t3), any_status(t4)];
        let t: u8 = kani::any();
        kani::assume(t >= 1 && t <= 6);
        let r = is_forward_loss(&probes, TimeToLive(t));
        // the same oracle as spec_forward_loss of specs/core_state.vtpl
        let mut first: Option<usize> = None;
        let mut i = 0;
        while i < 4 { if first.is_none() { if let Some(x) = ttl_of(&probes[i]) { if x > t { first = Some(i); } } } i += 1; }
        let expect = match first {
            None => false,
            Some(f) => { let mut ok = true; let mut j = f; while j < 4 { if !matches!(probes[j], ProbeStatus::Awaited(_) | ProbeStatus::Skipped) { ok = false; } j += 1; } ok }
        };
        assert!(r == expect);
    }
}
