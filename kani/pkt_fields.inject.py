#!/usr/bin/env python3
"""Generates the Kani mirror harnesses of the `pkt_views` contracts from the
RFC field table (specs/rfc_fields.py): one loop-free, full-domain harness per
(view, field) -- all buffer contents of a minimum-size buffer x all values --
stating the same per-field equation as the Verus contract in executable form,
plus one no-panic harness per view over a buffer of symbolic length.

Printed to stdout as an inject file (see lib/kx.py)."""
import os
import sys

HERE = os.path.dirname(os.path.abspath(__file__))
sys.path.insert(0, os.path.join(os.path.dirname(HERE), 'specs'))
from rfc_fields import VIEWS  # noqa: E402

NOPANIC_LEN_DEFAULT = 192

out = []
emit = out.append
emit('//@target crates/trippy-packet/src/lib.rs')
emit('//@crate trippy-packet')
emit('#[cfg(kani)]')
emit('mod verif_kani_fields {')
emit('''    #![allow(unused_mut, unused_variables, clippy::all)]
    use std::net::{Ipv4Addr, Ipv6Addr};

    /// value of the `w`-bit big-endian field starting at absolute bit position `pos` (bit 0 = msb of octet 0)
    fn be_bits(buf: &[u8], pos: usize, w: usize) -> u64 {
        let mut v: u64 = 0;
        let mut i = 0;
        while i < w {
            let p = pos + i;
            let bit = (buf[p / 8] >> (7 - (p % 8))) & 1;
            v = (v << 1) | u64::from(bit);
            i += 1;
        }
        v
    }
    /// `buf` with the low `w` bits of `val` stored at bit position `pos`, every other bit unchanged
    fn put_be_bits<const N: usize>(old: [u8; N], pos: usize, w: usize, val: u64) -> [u8; N] {
        let mut b = old;
        let mut i = 0;
        while i < w {
            let p = pos + i;
            let bit = ((val >> (w - 1 - i)) & 1) as u8;
            let m = 1u8 << (7 - (p % 8));
            b[p / 8] = (b[p / 8] & !m) | (if bit == 1 { m } else { 0 });
            i += 1;
        }
        b
    }
''')


def modpath(v):
    return 'crate::' + v['crate_mod'] + '::' + v['name']


def hname(v, suffix):
    fam = v['crate_mod'].split('::')[0]
    pre = {'icmpv4': 'icmp4_', 'icmpv6': 'icmp6_'}.get(fam, '')
    return 'k_%s%s_%s' % (pre, v['name'], suffix)


for v in VIEWS:
    T = modpath(v)
    MIN = v['min']
    fam = v['crate_mod'].split('::')[0]
    for f in v['fields']:
        h = hname(v, f['name'])
        pos = f['off'] * 8 + f['bit']
        w = f['width']
        emit('    //@harness %s mode=complete timeout=300' % h)
        emit('    #[kani::proof]')
        emit('    #[kani::unwind(%d)]' % (max(w, MIN, 16) + 3))
        emit('    fn %s() {' % h)
        emit('        let old: [u8; %d] = kani::any();' % MIN)
        emit('        let mut buf = old;')
        if f['kind'] == 'uint':
            emit('        let val: %s = kani::any();' % f['ty'])
            emit('        let got_old = %s::new_view(&old).unwrap().%s();' % (T, f['get']))
            emit('        assert!(u64::from(got_old) == be_bits(&old, %d, %d));' % (pos, w))
            emit('        { let mut p = %s::new(&mut buf).unwrap(); p.%s(val); }' % (T, f['set']))
            emit('        let exp = put_be_bits(old, %d, %d, u64::from(val));' % (pos, w))
            emit('        assert!(buf == exp);')
            emit('        let back = %s::new_view(&buf).unwrap().%s();' % (T, f['get']))
            emit('        assert!(u64::from(back) == u64::from(val) & ((1u64 << %d) - 1));' % w)
        elif f['kind'] in ('enum', 'newt'):
            conv = 'crate::%s::%s' % (fam if v['crate_mod'].startswith('icmpv') else v['crate_mod'], f['conv']) if f['conv'] != 'IpProtocol' else 'crate::IpProtocol'
            if f['conv'] in ('ClassNum', 'ClassSubType'):
                conv = 'crate::icmp_extension::extension_object::' + f['conv']
            emit('        let raw: u8 = kani::any();')
            emit('        let val = %s::from(raw);' % conv)
            idexpr = 'val.0' if f['kind'] == 'newt' else 'val.id()'
            emit('        assert!(%s == raw);' % idexpr)
            emit('        let got_old = %s::new_view(&old).unwrap().%s();' % (T, f['get']))
            emit('        assert!(got_old == %s::from(old[%d]));' % (conv, f['off']))
            emit('        { let mut p = %s::new(&mut buf).unwrap(); p.%s(val); }' % (T, f['set']))
            emit('        let mut exp = old; exp[%d] = raw;' % f['off'])
            emit('        assert!(buf == exp);')
        else:
            n = 4 if f['kind'] == 'addr4' else 16
            A = 'Ipv4Addr' if n == 4 else 'Ipv6Addr'
            emit('        let oct: [u8; %d] = kani::any();' % n)
            emit('        let val = %s::from(oct);' % A)
            emit('        let got_old = %s::new_view(&old).unwrap().%s();' % (T, f['get']))
            emit('        let mut i = 0; while i < %d { assert!(got_old.octets()[i] == old[%d + i]); i += 1; }' % (n, f['off']))
            emit('        { let mut p = %s::new(&mut buf).unwrap(); p.%s(val); }' % (T, f['set']))
            emit('        let mut exp = old; let mut i = 0; while i < %d { exp[%d + i] = oct[i]; i += 1; }' % (n, f['off']))
            emit('        assert!(buf == exp);')
        emit('    }')
    # construction iff min size + every accessor on a buffer of symbolic length: no panic
    h = hname(v, 'nopanic')
    NOPANIC_LEN = 40 if v['name'] in ('ExtensionsPacket', 'MplsLabelStackPacket') else NOPANIC_LEN_DEFAULT
    emit('    //@harness %s mode=bounded bound="buffer length <= %d octets" timeout=900' % (h, NOPANIC_LEN))
    emit('    #[kani::proof]')
    emit('    #[kani::unwind(%d)]' % (NOPANIC_LEN // 4 + 3 if NOPANIC_LEN < 100 else 20))
    emit('    fn %s() {' % h)
    emit('        let buf: [u8; %d] = kani::any();' % NOPANIC_LEN)
    emit('        let len: usize = kani::any();')
    emit('        kani::assume(len <= %d);' % NOPANIC_LEN)
    emit('        let r = %s::new_view(&buf[..len]);' % T)
    emit('        assert!(r.is_ok() == (len >= %d));' % MIN)
    emit('        if let Ok(p) = r {')
    for f in v['fields']:
        emit('            let _ = p.%s();' % f['get'])
    emit('            let _ = p.packet();')
    extra = {
        'Ipv4Packet': ['get_options_raw', 'payload'], 'Ipv6Packet': ['payload'], 'UdpPacket': ['payload'],
        'TcpPacket': ['get_options_raw', 'payload'], 'EchoRequestPacket': ['payload'], 'EchoReplyPacket': ['payload'],
        'TimeExceededPacket': ['payload', 'payload_raw', 'extension'], 'DestinationUnreachablePacket': ['payload', 'payload_raw', 'extension'],
        'ExtensionsPacket': ['header'], 'ExtensionObjectPacket': ['payload'],
    }.get(v['name'], [])
    for e in extra:
        emit('            let _ = p.%s();' % e)
    if v['name'] == 'ExtensionsPacket':
        emit('            let mut n = 0usize; for o in p.objects() { n += 1; assert!(o.len() >= 4); } assert!(n <= %d / 4);' % NOPANIC_LEN)
    if v['name'] == 'MplsLabelStackPacket':
        emit('            let mut n = 0usize; for m in p.members() { n += 1; assert!(m.len() >= 4); } assert!(n <= %d / 4);' % NOPANIC_LEN)
    emit('        }')
    emit('    }')

# RFC 4884 length scaling through the real views (contract mirror of split_payload_extension / payload / extension)
for fam, unit_len, lo in (('icmpv4', 4, 5), ('icmpv6', 8, 4)):
    for modn, T in (('time_exceeded', 'TimeExceededPacket'), ('destination_unreachable', 'DestinationUnreachablePacket')):
        pre = 'icmp4_' if fam == 'icmpv4' else 'icmp6_'
        h = 'k_%s%s_split_contract' % (pre, T)
        emit('    //@harness %s mode=bounded bound="ICMP message <= 208 octets, every length attribute 0..=255" timeout=900' % h)
        emit('    #[kani::proof]')
        emit('    fn %s() {' % h)
        emit('        let buf: [u8; 208] = kani::any();')
        emit('        let len: usize = kani::any(); kani::assume(len >= 8 && len <= 208);')
        emit('        let p = crate::%s::%s::%s::new_view(&buf[..len]).unwrap();' % (fam, modn, T))
        emit('        let length = usize::from(buf[%d]) * %d;      // RFC 4884: length attribute in %d-octet words' % (lo, unit_len, unit_len))
        emit('        let plen = len - 8;')
        emit('        let start = if length > plen { None } else if plen > 128 { let s = if length > 128 { length } else { 128 }; if plen - s >= 4 { Some(s) } else { None } } else { None };')
        emit('        let d = p.payload(); let e = p.extension();')
        emit('        match (start, e) {')
        emit('            (None, None) => { assert!(d.len() == plen); }')
        emit('            (Some(s), Some(x)) => { assert!(x.len() == plen - s); assert!(d.len() == if length > 0 { length } else { 128 }); assert!(x.as_ptr() as usize == buf.as_ptr() as usize + 8 + s); }')
        emit('            _ => { assert!(false); }')
        emit('        }')
        emit('        assert!(d.as_ptr() as usize == buf.as_ptr() as usize + 8);')
        emit('    }')

# Buffer::get_bytes (trusted contract in the Verus unit): discharged here for the three sizes used
for n in (2, 4, 16):
    emit('    //@harness k_buffer_get_bytes_%d mode=complete timeout=300' % n)
    emit('    #[kani::proof]')
    emit('    #[kani::unwind(%d)]' % (n + 2))
    emit('    fn k_buffer_get_bytes_%d() {' % n)
    emit('        let buf: [u8; 48] = kani::any();')
    emit('        let len: usize = kani::any(); kani::assume(len <= 48);')
    emit('        let off: usize = kani::any(); kani::assume(off <= 48 && off + %d <= len);' % n)
    emit('        let b = crate::buffer::Buffer::Immutable(&buf[..len]);')
    emit('        let r: [u8; %d] = b.get_bytes(off);' % n)
    emit('        let mut i = 0; while i < %d { assert!(r[i] == buf[off + i]); i += 1; }' % n)
    emit('    }')
# extension splitter, bounded mirror of the Verus contract
emit('''    //@harness k_split_contract mode=bounded bound="payload length <= 200 octets" timeout=900
    #[kani::proof]
    fn k_split_contract() {
        let buf: [u8; 200] = kani::any();
        let len: usize = kani::any(); kani::assume(len <= 200);
        let length: usize = kani::any(); kani::assume(length <= 2040);
        let p = &buf[..len];
        let (d, e) = crate::icmp_extension::extension_splitter::split(length, p);
        // in bounds, disjoint, ordered
        assert!(d.len() <= len);
        let start = if length > len { None } else if len > 128 { let s = if length > 128 { length } else { 128 }; if len - s >= 4 { Some(s) } else { None } } else { None };
        match (start, e) {
            (None, None) => { assert!(d.len() == len); }
            (Some(s), Some(x)) => {
                assert!(x.len() == len - s);
                assert!(d.len() == if length > 0 { length } else { 128 });
                assert!(d.len() <= s);
                assert!(x.as_ptr() as usize == p.as_ptr() as usize + s);
            }
            _ => { assert!(false); }
        }
        assert!(d.as_ptr() == p.as_ptr());
    }
''')
emit('''    //@harness k_extobj_iter_contract mode=bounded bound="extension structure <= 28 octets, first 4 next() calls" timeout=900
    #[kani::proof]
    #[kani::unwind(8)]
    fn k_extobj_iter_contract() {
        let buf: [u8; 28] = kani::any();
        let len: usize = kani::any(); kani::assume(len >= 4 && len <= 28);
        let b = &buf[..len];
        let p = crate::icmp_extension::extension_structure::ExtensionsPacket::new_view(b).unwrap();
        let mut it = p.objects();
        let mut off: usize = 4;     // model state: RFC 4884 objects start after the 4-octet extension header
        let mut done = false;
        let mut k = 0;
        while k < 4 {
            let r = it.next();
            let fits = off + 4 <= len && {
                let l = usize::from(b[off]) * 256 + usize::from(b[off + 1]);
                l >= 4 && off + l <= len
            };
            if done { /* after a None the code keeps its offset: the same answer again */ }
            match r {
                Some(o) => {
                    assert!(fits);
                    assert!(o.len() == len - off);
                    assert!(o.as_ptr() as usize == b.as_ptr() as usize + off);
                    off += usize::from(b[off]) * 256 + usize::from(b[off + 1]);
                    assert!(off <= len);
                }
                None => { assert!(!fits); done = true; }
            }
            k += 1;
        }
    }
    //@harness k_mpls_iter_contract mode=bounded bound="label stack <= 20 octets, first 5 next() calls" timeout=900
    #[kani::proof]
    #[kani::unwind(8)]
    fn k_mpls_iter_contract() {
        let buf: [u8; 20] = kani::any();
        let len: usize = kani::any(); kani::assume(len >= 4 && len <= 20);
        let b = &buf[..len];
        let p = crate::icmp_extension::mpls_label_stack::MplsLabelStackPacket::new_view(b).unwrap();
        let mut it = p.members();
        let mut off: usize = 0;
        let mut bos: u8 = 0;        // RFC 3032: the entry with S = 1 is the last one
        let mut k = 0;
        while k < 5 {
            let r = it.next();
            let expect = bos == 0 && off + 4 <= len;
            match r {
                Some(m) => {
                    assert!(expect);
                    assert!(m.len() == len - off);
                    assert!(m.as_ptr() as usize == b.as_ptr() as usize + off);
                    bos = b[off + 2] & 1;
                    off += 4;
                }
                None => { assert!(!expect); }
            }
            k += 1;
        }
    }
''')
emit('}')
print('\n'.join(out))
