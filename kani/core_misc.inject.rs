//@target crates/trippy-core/src/net/common.rs
//@crate trippy-core
// ErrorMapper match tables (C09 O5): exhaustive over the errno values of the platform and the four IoError variants (loop free => complete).
#[cfg(kani)]
mod verif_kani_common {
    use super::*;
    use crate::error::IoError;
    use std::io;
    use std::net::{Ipv4Addr, SocketAddrV4};

    const ADDR: SocketAddr = SocketAddr::V4(SocketAddrV4::new(Ipv4Addr::UNSPECIFIED, 0));
    const EINPROGRESS: i32 = 115;
    const EHOSTUNREACH: i32 = 113;
    const ENETUNREACH: i32 = 101;
    const EADDRINUSE: i32 = 98;

    /// the io error as any of the four IoError variants (bind / connect / sendto / other operation): the mappers
    /// look at the error KIND, never at the operation that failed
    fn mk_v(code: i32, variant: u8) -> Error {
        let e = io::Error::from_raw_os_error(code);
        Error::IoError(match variant {
            0 => IoError::Bind(e, ADDR),
            1 => IoError::Connect(e, ADDR),
            2 => IoError::SendTo(e, ADDR),
            _ => IoError::Other(e, crate::error::IoOperation::SetTtl),
        })
    }

    //@harness k_error_mapper_tables mode=complete timeout=900
    #[kani::proof]
    fn k_error_mapper_tables() {
        let code: i32 = kani::any();
        kani::assume(code >= 1 && code <= 133);
        let variant: u8 = kani::any();
        kani::assume(variant < 4);
        let mk = |c: i32| mk_v(c, variant);
        // in_progress: only EINPROGRESS becomes Ok, every other error is returned unchanged
        match ErrorMapper::in_progress(mk(code)) {
            Ok(()) => assert!(code == EINPROGRESS),
            Err(Error::IoError(e)) => { assert!(code != EINPROGRESS); assert!(e.kind() == ErrorKind::from(&io::Error::from_raw_os_error(code))); }
            Err(_) => assert!(false),
        }
        // addr_in_use: only EADDRINUSE becomes Error::AddressInUse(addr)
        match ErrorMapper::addr_in_use(mk(code), ADDR) {
            Error::AddressInUse(a) => assert!(code == EADDRINUSE && a == ADDR),
            Error::IoError(_) => assert!(code != EADDRINUSE),
            _ => assert!(false),
        }
        // probe_failed: exactly the given kind becomes Error::ProbeFailed (transient), everything else is unchanged
        match ErrorMapper::probe_failed(mk(code), ErrorKind::HostUnreachable) {
            Error::ProbeFailed(_) => assert!(code == EHOSTUNREACH),
            Error::IoError(_) => assert!(code != EHOSTUNREACH),
            _ => assert!(false),
        }
        match ErrorMapper::probe_failed(mk(code), ErrorKind::NetUnreachable) {
            Error::ProbeFailed(_) => assert!(code == ENETUNREACH),
            Error::IoError(_) => assert!(code != ENETUNREACH),
            _ => assert!(false),
        }
        // non-IO errors pass through all three mappers untouched
        assert!(matches!(ErrorMapper::in_progress(Error::InsufficientCapacity), Err(Error::InsufficientCapacity)));
        assert!(matches!(ErrorMapper::addr_in_use(Error::InsufficientCapacity, ADDR), Error::InsufficientCapacity));
        assert!(matches!(ErrorMapper::probe_failed(Error::MissingAddr, ErrorKind::HostUnreachable), Error::MissingAddr));
    }
}
