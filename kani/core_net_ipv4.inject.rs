//@target crates/trippy-core/src/net/ipv4.rs
//@crate trippy-core
// Kani harnesses on the real send / receive functions of net/ipv4.rs (C11, C02 O4, C04 b, C13 O4, C19 O4).
// The probes are dispatched into a capturing socket; captured datagrams are decoded with an independent,
// index-based RFC 791 / 792 / 768 decoder written here (never with trippy-packet getters).
#[cfg(kani)]
pub(crate) mod verif_kani_net4 {
    use super::*;
    use crate::error::IoResult;
    use crate::net::socket::{Socket, SocketError};
    use crate::{Flags, Port, RoundId, TimeToLive};
    use std::net::{Ipv4Addr, Ipv6Addr};
    use std::time::Duration;

    pub const CAP: usize = 128;

    /// capturing / replaying socket
    pub struct KSock {
        pub sent: [u8; CAP],
        pub sent_len: usize,
        pub sent_addr: Option<SocketAddr>,
        pub sends: u8,
        pub rx: [u8; CAP],
        pub rx_len: usize,
        pub rx_addr: Option<SocketAddr>,
    }
    impl KSock {
        pub fn new() -> Self {
            Self { sent: [0; CAP], sent_len: 0, sent_addr: None, sends: 0, rx: [0; CAP], rx_len: 0, rx_addr: None }
        }
    }
    impl Socket for KSock {
        fn new_icmp_send_socket_ipv4(_: bool) -> IoResult<Self> { Ok(Self::new()) }
        fn new_icmp_send_socket_ipv6(_: bool) -> IoResult<Self> { Ok(Self::new()) }
        fn new_udp_send_socket_ipv4(_: bool) -> IoResult<Self> { Ok(Self::new()) }
        fn new_udp_send_socket_ipv6(_: bool) -> IoResult<Self> { Ok(Self::new()) }
        fn new_recv_socket_ipv4(_: Ipv4Addr, _: bool) -> IoResult<Self> { Ok(Self::new()) }
        fn new_recv_socket_ipv6(_: Ipv6Addr, _: bool) -> IoResult<Self> { Ok(Self::new()) }
        fn new_stream_socket_ipv4() -> IoResult<Self> { Ok(Self::new()) }
        fn new_stream_socket_ipv6() -> IoResult<Self> { Ok(Self::new()) }
        fn new_udp_dgram_socket_ipv4() -> IoResult<Self> { Ok(Self::new()) }
        fn new_udp_dgram_socket_ipv6() -> IoResult<Self> { Ok(Self::new()) }
        fn bind(&mut self, _: SocketAddr) -> IoResult<()> { Ok(()) }
        fn set_tos(&mut self, _: u32) -> IoResult<()> { Ok(()) }
        fn set_ttl(&mut self, _: u32) -> IoResult<()> { Ok(()) }
        fn set_reuse_port(&mut self, _: bool) -> IoResult<()> { Ok(()) }
        fn set_header_included(&mut self, _: bool) -> IoResult<()> { Ok(()) }
        fn set_unicast_hops_v6(&mut self, _: u8) -> IoResult<()> { Ok(()) }
        fn connect(&mut self, _: SocketAddr) -> IoResult<()> { Ok(()) }
        fn send_to(&mut self, buf: &[u8], addr: SocketAddr) -> IoResult<()> {
            assert!(buf.len() <= CAP);
            self.sent[..buf.len()].copy_from_slice(buf);
            self.sent_len = buf.len();
            self.sent_addr = Some(addr);
            self.sends += 1;
            Ok(())
        }
        fn is_readable(&mut self, _: Duration) -> IoResult<bool> { Ok(true) }
        fn is_writable(&mut self) -> IoResult<bool> { Ok(true) }
        fn recv_from(&mut self, buf: &mut [u8]) -> IoResult<(usize, Option<SocketAddr>)> {
            buf[..self.rx_len].copy_from_slice(&self.rx[..self.rx_len]);
            Ok((self.rx_len, self.rx_addr))
        }
        fn read(&mut self, buf: &mut [u8]) -> IoResult<usize> {
            buf[..self.rx_len].copy_from_slice(&self.rx[..self.rx_len]);
            Ok(self.rx_len)
        }
        fn shutdown(&mut self) -> IoResult<()> { Ok(()) }
        fn peer_addr(&mut self) -> IoResult<Option<SocketAddr>> { Ok(None) }
        fn take_error(&mut self) -> IoResult<Option<SocketError>> { Ok(None) }
        fn icmp_error_info(&mut self) -> IoResult<IpAddr> { Ok(IpAddr::V4(Ipv4Addr::UNSPECIFIED)) }
    }

    pub fn stub_now() -> SystemTime { SystemTime::UNIX_EPOCH }

    /// independent RFC 1071 one's-complement sum of `data[..len]` plus `init`, folded to 16 bits
    pub fn ones_sum(data: &[u8], len: usize, init: u32) -> u16 {
        let mut s: u32 = init;
        let mut i = 0;
        while i + 1 < len {
            s += (u32::from(data[i]) << 8) | u32::from(data[i + 1]);
            i += 2;
        }
        if i < len {
            s += u32::from(data[i]) << 8;
        }
        while s >> 16 != 0 {
            s = (s & 0xffff) + (s >> 16);
        }
        s as u16
    }
    pub fn be16(b: &[u8], o: usize) -> u16 { (u16::from(b[o]) << 8) | u16::from(b[o + 1]) }

    fn any_cfg(protocol: Protocol, pmax: u16, pmin: u16) -> Ipv4 {
        // the datagram size is concrete per harness (symbolic sizes make CBMC's array reasoning explode on the
        // 1024-octet buffers of the real code): pmin == pmax selects it; all other inputs stay symbolic
        let ps: u16 = if pmin == pmax { pmin } else { kani::any() };
        kani::assume(ps >= pmin && ps <= pmax);
        Ipv4 {
            src_addr: Ipv4Addr::from(kani::any::<[u8; 4]>()),
            dest_addr: Ipv4Addr::from(kani::any::<[u8; 4]>()),
            byte_order: platform::Ipv4ByteOrder::Network,
            packet_size: PacketSize(ps),
            payload_pattern: PayloadPattern(kani::any()),
            privilege_mode: PrivilegeMode::Privileged,
            tos: TypeOfService(kani::any()),
            protocol,
            icmp_extension_mode: IcmpExtensionParseMode::Disabled,
        }
    }
    fn any_probe(flags: Flags) -> Probe {
        let ttl: u8 = kani::any();
        kani::assume(ttl >= 1 && ttl <= 254);
        Probe::new(Sequence(kani::any()), TraceId(kani::any()), Port(kani::any()), Port(kani::any()), TimeToLive(ttl), RoundId(0), SystemTime::UNIX_EPOCH, flags)
    }
    /// RFC 791 header checks shared by all dispatch harnesses
    fn check_ipv4_header(c: &Ipv4, b: &[u8], len: usize, proto: u8, ttl: u8, ident: u16) {
        assert!(b[0] == 0x45);                                  // version 4, IHL 5
        assert!(b[1] == c.tos.0);                               // configured type of service
        assert!(usize::from(be16(b, 2)) == len);                // total length (network order on Linux)
        assert!(be16(b, 4) == ident);                           // identification
        assert!(b[6] == 0x40 && b[7] == 0);                     // don't fragment set, offset 0
        assert!(b[8] == ttl);                                   // the probe's ttl
        assert!(b[9] == proto);
        assert!(b[12..16] == c.src_addr.octets());
        assert!(b[16..20] == c.dest_addr.octets());
    }

    fn dispatch_icmp_wellformed(ps: u16) {
        let c = any_cfg(Protocol::Icmp, ps, ps);
        let probe = any_probe(Flags::empty());
        let mut s = KSock::new();
        let r = c.dispatch_icmp_probe(&mut s, probe.clone());
        assert!(r.is_ok());
        assert!(s.sends == 1);
        let len = s.sent_len;
        assert!(len == usize::from(c.packet_size.0));           // total size == configured packet size
        assert!(s.sent_addr == Some(SocketAddr::new(IpAddr::V4(c.dest_addr), 0)));
        let b = &s.sent;
        check_ipv4_header(&c, b, len, 1, probe.ttl.0, 0);
        assert!(b[20] == 8 && b[21] == 0);                      // echo request, code 0
        assert!(be16(b, 24) == probe.identifier.0);             // trace identifier
        assert!(be16(b, 26) == probe.sequence.0);               // sequence in the ICMP sequence field
        let mut i = 28;
        while i < len { assert!(b[i] == c.payload_pattern.0); i += 1; }
        assert!(ones_sum(&b[20..], len - 20, 0) == 0xffff);     // RFC 792 checksum verifies
    }

    //@harness k4_dispatch_icmp_28 mode=bounded bound="packet size 28 (no payload); all ttl, tos, pattern, identifier, sequence, addresses" timeout=1200
    #[kani::proof]
    #[kani::unwind(24)]
    fn k4_dispatch_icmp_28() { dispatch_icmp_wellformed(28); }
    //@harness k4_dispatch_icmp_33 mode=bounded bound="packet size 33 (odd payload of 5); all ttl, tos, pattern, identifier, sequence, addresses" timeout=1200
    #[kani::proof]
    #[kani::unwind(24)]
    fn k4_dispatch_icmp_33() { dispatch_icmp_wellformed(33); }
    fn dispatch_udp_wellformed(ps: u16) {
        let c = any_cfg(Protocol::Udp, ps, ps);
        let dublin: bool = kani::any();
        let probe = any_probe(if dublin { Flags::DUBLIN_IPV6_PAYLOAD_LENGTH } else { Flags::empty() });
        let mut s = KSock::new();
        let r = c.dispatch_udp_probe(&mut s, probe.clone());
        assert!(r.is_ok());
        assert!(s.sends == 1);
        let len = s.sent_len;
        assert!(len == usize::from(c.packet_size.0));
        assert!(s.sent_addr == Some(SocketAddr::new(IpAddr::V4(c.dest_addr), probe.dest_port.0)));
        let b = &s.sent;
        check_ipv4_header(&c, b, len, 17, probe.ttl.0, probe.identifier.0);   // Dublin: sequence in the IP identification
        assert!(be16(b, 20) == probe.src_port.0 && be16(b, 22) == probe.dest_port.0);
        assert!(usize::from(be16(b, 24)) == len - 20);          // UDP length consistent
        let mut i = 28;
        while i < len { assert!(b[i] == c.payload_pattern.0); i += 1; }
        // RFC 768 checksum incl. pseudo header verifies
        let o = c.src_addr.octets(); let d = c.dest_addr.octets();
        let pseudo = u32::from(be16(&o, 0)) + u32::from(be16(&o, 2)) + u32::from(be16(&d, 0)) + u32::from(be16(&d, 2)) + 17 + (len as u32 - 20);
        assert!(ones_sum(&b[20..], len - 20, pseudo) == 0xffff);
        // C19 O4: the expected checksum computed on receipt equals the checksum as sent
        let exp = c.calc_udp_checksum(probe.src_port, probe.dest_port, (len - 28) as u16).unwrap();
        assert!(exp == be16(b, 26));
    }

    //@harness k4_dispatch_udp_28 mode=bounded bound="packet size 28; classic and dublin; all ports, ttl, tos, identifier, addresses" timeout=1200
    #[kani::proof]
    #[kani::unwind(24)]
    fn k4_dispatch_udp_28() { dispatch_udp_wellformed(28); }
    //@harness k4_dispatch_udp_33 mode=bounded bound="packet size 33; classic and dublin; all ports, ttl, tos, identifier, pattern, addresses" timeout=1200
    #[kani::proof]
    #[kani::unwind(24)]
    fn k4_dispatch_udp_33() { dispatch_udp_wellformed(33); }
    //@harness k4_dispatch_udp_paris mode=complete timeout=900
    #[kani::proof]
    #[kani::unwind(12)]
    fn k4_dispatch_udp_paris() {
        let c = any_cfg(Protocol::Udp, 64, 64);   // the configured size is irrelevant for Paris (2-octet payload)
        let probe = any_probe(Flags::PARIS_CHECKSUM);
        let mut s = KSock::new();
        let r = c.dispatch_udp_probe(&mut s, probe.clone());
        assert!(r.is_ok());
        let len = s.sent_len;
        assert!(len == 30);                                     // Paris: 2-octet payload
        let b = &s.sent;
        check_ipv4_header(&c, b, len, 17, probe.ttl.0, probe.identifier.0);
        assert!(be16(b, 20) == probe.src_port.0 && be16(b, 22) == probe.dest_port.0);
        assert!(be16(b, 24) == 10);
        assert!(be16(b, 26) == probe.sequence.0);               // C13: checksum field carries the sequence
        let o = c.src_addr.octets(); let d = c.dest_addr.octets();
        let pseudo = u32::from(be16(&o, 0)) + u32::from(be16(&o, 2)) + u32::from(be16(&d, 0)) + u32::from(be16(&d, 2)) + 17 + 10;
        assert!(ones_sum(&b[20..], 10, pseudo) == 0xffff);      // ... and the datagram still verifies
    }

    /// wrap `quoted[..qlen]` into an ICMP Time Exceeded from `router`, as RFC 792 prescribes, into sock.rx
    fn time_exceeded(s: &mut KSock, quoted: &[u8; CAP], qlen: usize, router: [u8; 4], me: [u8; 4]) {
        let total = 28 + qlen;
        let mut rx = [0u8; CAP];
        rx[0] = 0x45; rx[2] = (total >> 8) as u8; rx[3] = total as u8; rx[8] = kani::any(); rx[9] = 1;
        rx[12..16].copy_from_slice(&router); rx[16..20].copy_from_slice(&me);
        rx[20] = 11; rx[21] = 0;
        rx[28..28 + qlen].copy_from_slice(&quoted[..qlen]);
        // in-transit changes routers make to the quoted header: ttl, header checksum (tos is kept: the tracer reports it)
        rx[28 + 8] = kani::any(); rx[28 + 10] = kani::any(); rx[28 + 11] = kani::any();
        s.rx = rx;
        s.rx_len = total;
    }

    //@harness k4_roundtrip_icmp mode=bounded bound="packet size 33, quotation = IP header + 8 octets or the full datagram" timeout=1500
    #[kani::proof]
    #[kani::unwind(24)]
    #[kani::stub(std::time::SystemTime::now, stub_now)]
    fn k4_roundtrip_icmp() {
        let c = any_cfg(Protocol::Icmp, 33, 33);
        let probe = any_probe(Flags::empty());
        let mut s = KSock::new();
        c.dispatch_icmp_probe(&mut s, probe.clone()).unwrap();
        let qfull: bool = kani::any();
        let qlen: usize = if qfull { s.sent_len } else { 28 };
        let sent = s.sent;
        let router: [u8; 4] = kani::any();
        time_exceeded(&mut s, &sent, qlen, router, c.src_addr.octets());
        let resp = c.recv_icmp_probe(&mut s).unwrap();
        match resp {
            Some(Response::TimeExceeded(data, _, None)) => {
                assert!(data.addr == IpAddr::V4(Ipv4Addr::from(router)));
                match data.proto_resp {
                    ProtocolResponse::Icmp(i) => { assert!(i.identifier == probe.identifier.0 && i.sequence == probe.sequence.0); }
                    _ => { assert!(false); }
                }
            }
            _ => { assert!(false); }
        }
    }

    //@harness k4_roundtrip_udp mode=bounded bound="packet size 33, quotation = IP header + 8 octets or the full datagram, classic / paris / dublin" timeout=1800
    #[kani::proof]
    #[kani::unwind(24)]
    #[kani::stub(std::time::SystemTime::now, stub_now)]
    fn k4_roundtrip_udp() {
        let c = any_cfg(Protocol::Udp, 33, 33);
        let which: u8 = kani::any();
        kani::assume(which < 3);
        let flags = if which == 0 { Flags::empty() } else if which == 1 { Flags::PARIS_CHECKSUM } else { Flags::DUBLIN_IPV6_PAYLOAD_LENGTH };
        let probe = any_probe(flags);
        let mut s = KSock::new();
        c.dispatch_udp_probe(&mut s, probe.clone()).unwrap();
        let qfull: bool = kani::any();
        let qlen: usize = if qfull { s.sent_len } else { 28 };
        let sent = s.sent;
        let router: [u8; 4] = kani::any();
        time_exceeded(&mut s, &sent, qlen, router, c.src_addr.octets());
        let resp = c.recv_icmp_probe(&mut s).unwrap();
        match resp {
            Some(Response::TimeExceeded(data, _, None)) => match data.proto_resp {
                ProtocolResponse::Udp(u) => {
                    assert!(u.dest_addr == IpAddr::V4(c.dest_addr));
                    assert!(u.src_port == probe.src_port.0 && u.dest_port == probe.dest_port.0);
                    assert!(u.identifier == probe.identifier.0);                       // Dublin carrier
                    if which == 1 { assert!(u.actual_udp_checksum == probe.sequence.0); }   // Paris carrier
                    assert!(usize::from(u.payload_len) == sent_payload_len(&sent));
                    if which != 1 { assert!(u.expected_udp_checksum == u.actual_udp_checksum); }   // C19: no rewrite => expected == actual
                }
                _ => { assert!(false); }
            },
            _ => { assert!(false); }
        }
    }
    fn sent_payload_len(b: &[u8; CAP]) -> usize { usize::from(be16(b, 24)) - 8 }

    /// stand-in for calc_udp_checksum inside the receive-path harnesses (its own obligations are discharged by
    /// k4_calc_udp_checksum_nopanic and, for the value, by k4_dispatch_udp_wellformed)
    pub fn stub_calc(_c: &Ipv4, _s: Port, _d: Port, _n: u16) -> Result<u16> { Ok(kani::any()) }
    pub fn stub_udp_checksum(_data: &[u8], _s: Ipv4Addr, _d: Ipv4Addr) -> u16 { kani::any() }

    fn recv_nopanic(protocol: Protocol, n: usize) {
        let c = Ipv4 { protocol, ..any_cfg(protocol, 64, 28) };
        let mut s = KSock::new();
        s.rx = kani::any();
        // concrete length (all contents symbolic): symbolic lengths over the 1024-octet receive buffer exhaust memory
        s.rx_len = n;
        let _ = c.recv_icmp_probe(&mut s);
    }
    //@harness k4_recv_nopanic_icmp mode=bounded bound="received datagram of exactly 64 octets (all contents), extensions disabled" timeout=1500
    #[kani::proof]
    #[kani::unwind(24)]
    #[kani::stub(std::time::SystemTime::now, stub_now)]
    fn k4_recv_nopanic_icmp() { recv_nopanic(Protocol::Icmp, 64); }
    //@harness k4_recv_nopanic_udp mode=bounded bound="received datagram of exactly 64 octets (all contents), extensions disabled, calc_udp_checksum stubbed" timeout=1500
    #[kani::proof]
    #[kani::unwind(24)]
    #[kani::stub(std::time::SystemTime::now, stub_now)]
    #[kani::stub(Ipv4::calc_udp_checksum, stub_calc)]
    fn k4_recv_nopanic_udp() { recv_nopanic(Protocol::Udp, 64); }
    //@harness k4_recv_nopanic_tcp mode=bounded bound="received datagram of exactly 64 octets (all contents), extensions disabled" timeout=1500
    #[kani::proof]
    #[kani::unwind(24)]
    #[kani::stub(std::time::SystemTime::now, stub_now)]
    fn k4_recv_nopanic_tcp() { recv_nopanic(Protocol::Tcp, 64); }
}
