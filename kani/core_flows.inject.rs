//@target crates/trippy-core/src/flows.rs
//@crate trippy-core
// Bounded Kani stand-ins for the flow registry (C15): Flow::check / merge / from_hops and FlowRegistry::register are
// built on iterator adapters (zip, zip_longest, collect) that the installed Verus cannot read.  Bounds are stated per
// harness; these are NOT counted as proved.
#[cfg(kani)]
mod verif_kani_flows {
    use super::*;
    use std::net::Ipv4Addr;

    const N: usize = 2; // flow length bound

    fn any_entry() -> FlowEntry {
        let k: u8 = kani::any();
        kani::assume(k < 3);
        if k == 0 { FlowEntry::Unknown } else { FlowEntry::Known(IpAddr::V4(Ipv4Addr::new(10, 0, 0, k))) }
    }
    fn any_flow() -> Flow {
        let len: usize = kani::any();
        kani::assume(len <= N);
        let mut entries = Vec::new();
        let mut i = 0;
        while i < len { entries.push(any_entry()); i += 1; }
        Flow { entries }
    }
    /// oracle from the property: two flows contradict iff some position holds two different known addresses
    fn conflict(a: &Flow, b: &Flow) -> bool {
        let mut i = 0;
        while i < a.entries.len() && i < b.entries.len() {
            if let (FlowEntry::Known(x), FlowEntry::Known(y)) = (a.entries[i], b.entries[i]) { if x != y { return true; } }
            i += 1;
        }
        false
    }
    /// `b` adds information to `a`: longer, or known where `a` is unknown
    fn adds(a: &Flow, b: &Flow) -> bool {
        if b.entries.len() > a.entries.len() { return true; }
        let mut i = 0;
        while i < a.entries.len() && i < b.entries.len() {
            if matches!((a.entries[i], b.entries[i]), (FlowEntry::Unknown, FlowEntry::Known(_))) { return true; }
            i += 1;
        }
        false
    }
    /// `new` extends `old`: never contradicts or forgets what was recorded
    fn extends(old: &Flow, new: &Flow) -> bool {
        if new.entries.len() < old.entries.len() { return false; }
        let mut i = 0;
        while i < old.entries.len() {
            if let FlowEntry::Known(x) = old.entries[i] { if new.entries[i] != FlowEntry::Known(x) { return false; } }
            i += 1;
        }
        true
    }

    //@harness k_flow_check_contract mode=bounded bound="flows of <= 2 entries over 2 addresses + unknown" timeout=900
    #[kani::proof]
    #[kani::unwind(4)]
    fn k_flow_check_contract() {
        let a = any_flow();
        let b = any_flow();
        let r = a.check(&b);
        let c = conflict(&a, &b);
        assert!((r == CheckStatus::NoMatch) == c);
        if !c { assert!((r == CheckStatus::MatchMerge) == adds(&a, &b)); }
    }

    //@harness k_flow_merge_contract mode=bounded bound="flows of <= 2 entries over 2 addresses + unknown" timeout=900
    #[kani::proof]
    #[kani::unwind(4)]
    fn k_flow_merge_contract() {
        let a = any_flow();
        let b = any_flow();
        kani::assume(!conflict(&a, &b));
        let mut m = a.clone();
        m.merge(&b);
        assert!(m.entries.len() == if a.entries.len() >= b.entries.len() { a.entries.len() } else { b.entries.len() });
        assert!(extends(&a, &m));     // never forgets / contradicts what was recorded
        assert!(extends(&b, &m));     // agrees position by position with every address seen in the round
        assert!(!conflict(&m, &b));
    }

    //@harness k_flow_from_hops_contract mode=bounded bound="<= 2 hops" timeout=900
    #[kani::proof]
    #[kani::unwind(4)]
    fn k_flow_from_hops_contract() {
        let f = any_flow();
        let hops: Vec<Option<IpAddr>> = f.entries.iter().map(|e| match e { FlowEntry::Known(a) => Some(*a), FlowEntry::Unknown => None }).collect();
        let g = Flow::from_hops(hops);
        assert!(g == f);              // position i <-> hops[i], known <-> Some
    }

    //@harness k_registry_register_contract mode=bounded bound="registry of <= 1 flow of <= 2 entries, one further registration" timeout=1800
    #[kani::proof]
    #[kani::unwind(4)]
    fn k_registry_register_contract() {
        let mut reg = FlowRegistry::new();
        let n: usize = kani::any();
        kani::assume(n <= 1);
        let mut i = 0;
        while i < n { let _ = reg.register(any_flow()); i += 1; }
        // ids are issued densely from 1
        let mut k = 0;
        while k < reg.flows().len() { assert!(reg.flows()[k].1 == FlowId(k as u64 + 1)); k += 1; }
        assert!(reg.next_flow_id == FlowId(reg.flows().len() as u64 + 1));
        let before: Vec<(Flow, FlowId)> = reg.flows().to_vec();
        let f = any_flow();
        let id = reg.register(f.clone());
        // first non-contradicting flow wins, otherwise a new id is issued
        let mut first: Option<usize> = None;
        let mut k = 0;
        while k < before.len() { if first.is_none() && !conflict(&before[k].0, &f) { first = Some(k); } k += 1; }
        match first {
            Some(j) => {
                assert!(id == before[j].1);
                assert!(reg.flows().len() == before.len());
                assert!(extends(&before[j].0, &reg.flows()[j].0) && extends(&f, &reg.flows()[j].0));
                let mut k = 0;
                while k < before.len() { if k != j { assert!(reg.flows()[k] == before[k]); } k += 1; }
            }
            None => {
                assert!(id == FlowId(before.len() as u64 + 1));
                assert!(reg.flows().len() == before.len() + 1);
                assert!(reg.flows()[before.len()].0 == f);
                let mut k = 0;
                while k < before.len() { assert!(reg.flows()[k] == before[k]); k += 1; }
            }
        }
        assert!(reg.next_flow_id == FlowId(reg.flows().len() as u64 + 1));
    }
}
