//@target crates/trippy-core/src/flows.rs
//@crate trippy-core
// Bounded Kani stand-ins for the flow registry (C15): Flow::check / merge / from_hops and FlowRegistry::register are
// built on iterator adapters (zip, zip_longest, collect) that the installed Verus cannot read.  Bounds are stated per
// harness; these are NOT counted as proved.
#[cfg(kani)]
mod verif_kani_flows {
    use super::*;
    use std::net::Ipv4Addr;

    const N: usize = 2; // flow length bound

    fn any_entry() -> FlowEntry {
        let k: u8 = kani::any();
        kani::assume(k < 3);
        if k == 0 { FlowEntry::Unknown } else { FlowEntry::Known(IpAddr::V4(Ipv4Addr::new(10, 0, 0, k))) }
    }
    /// a flow of exactly `len` symbolic entries (concrete lengths keep CBMC's Vec reasoning tractable)
    fn flow_n(len: usize) -> Flow {
        let mut entries = Vec::with_capacity(len);
        let mut i = 0;
        while i < len { entries.push(any_entry()); i += 1; }
        Flow { entries }
    }
    fn any_flow() -> Flow {
        let len: usize = kani::any();
        kani::assume(len <= N);
        let mut entries = Vec::new();
        let mut i = 0;
        while i < len { entries.push(any_entry()); i += 1; }
        Flow { entries }
    }
    /// oracle from the property: two flows contradict iff some position holds two different known addresses
    fn conflict(a: &Flow, b: &Flow) -> bool {
        let mut i = 0;
        while i < a.entries.len() && i < b.entries.len() {
            if let (FlowEntry::Known(x), FlowEntry::Known(y)) = (a.entries[i], b.entries[i]) { if x != y { return true; } }
            i += 1;
        }
        false
    }
    /// `b` adds information to `a`: longer, or known where `a` is unknown
    fn adds(a: &Flow, b: &Flow) -> bool {
        if b.entries.len() > a.entries.len() { return true; }
        let mut i = 0;
        while i < a.entries.len() && i < b.entries.len() {
            if matches!((a.entries[i], b.entries[i]), (FlowEntry::Unknown, FlowEntry::Known(_))) { return true; }
            i += 1;
        }
        false
    }
    /// `new` extends `old`: never contradicts or forgets what was recorded
    fn extends(old: &Flow, new: &Flow) -> bool {
        if new.entries.len() < old.entries.len() { return false; }
        let mut i = 0;
        while i < old.entries.len() {
            if let FlowEntry::Known(x) = old.entries[i] { if new.entries[i] != FlowEntry::Known(x) { return false; } }
            i += 1;
        }
        true
    }

    //@harness k_flow_check_contract mode=bounded bound="flows of <= 2 entries over 2 addresses + unknown" timeout=900
    #[kani::proof]
    #[kani::unwind(8)]
    fn k_flow_check_contract() {
        let a = any_flow();
        let b = any_flow();
        let r = a.check(&b);
        let c = conflict(&a, &b);
        assert!((r == CheckStatus::NoMatch) == c);
        if !c { assert!((r == CheckStatus::MatchMerge) == adds(&a, &b)); }
    }

    fn merge_contract(la: usize, lb: usize) {
        let a = flow_n(la);
        let b = flow_n(lb);
        kani::assume(!conflict(&a, &b));
        let mut m = a.clone();
        m.merge(&b);
        assert!(m.entries.len() == if la >= lb { la } else { lb });
        assert!(extends(&a, &m));     // never forgets / contradicts what was recorded
        assert!(extends(&b, &m));     // agrees position by position with every address seen in the round
        assert!(!conflict(&m, &b));
    }
    //@harness k_flow_merge_2_1 mode=bounded bound="recorded flow of 2 entries, seen flow of 1 entry (2 addresses + unknown)" timeout=900
    #[kani::proof]
    #[kani::unwind(8)]
    fn k_flow_merge_2_1() { merge_contract(2, 1); }
    //@harness k_flow_merge_1_2 mode=bounded bound="recorded flow of 1 entry, seen flow of 2 entries" timeout=900
    #[kani::proof]
    #[kani::unwind(8)]
    fn k_flow_merge_1_2() { merge_contract(1, 2); }
    //@harness k_flow_merge_2_2 mode=bounded bound="recorded and seen flows of 2 entries" timeout=900
    #[kani::proof]
    #[kani::unwind(8)]
    fn k_flow_merge_2_2() { merge_contract(2, 2); }

    //@harness k_flow_from_hops_contract mode=bounded bound="exactly 2 hops (2 addresses + unknown)" timeout=900
    #[kani::proof]
    #[kani::unwind(8)]
    fn k_flow_from_hops_contract() {
        let f = flow_n(2);
        let h = |e: FlowEntry| match e { FlowEntry::Known(a) => Some(a), FlowEntry::Unknown => None };
        let g = Flow::from_hops([h(f.entries[0]), h(f.entries[1])]);
        assert!(g == f);              // position i <-> hops[i], known <-> Some
    }

    fn register_contract(l0: usize, l1: usize) {
        let mut reg = FlowRegistry::new();
        let f0 = flow_n(l0);
        let id0 = reg.register(f0.clone());
        assert!(id0 == FlowId(1) && reg.flows().len() == 1 && reg.next_flow_id == FlowId(2));   // ids are issued densely from 1
        let f = flow_n(l1);
        let id = reg.register(f.clone());
        if !conflict(&f0, &f) {
            // the first non-contradicting flow wins; it is only ever extended
            assert!(id == FlowId(1) && reg.flows().len() == 1 && reg.next_flow_id == FlowId(2));
            assert!(extends(&f0, &reg.flows()[0].0) && extends(&f, &reg.flows()[0].0));
            assert!(reg.flows()[0].1 == FlowId(1));
        } else {
            assert!(id == FlowId(2) && reg.flows().len() == 2 && reg.next_flow_id == FlowId(3));
            assert!(reg.flows()[0] == (f0, FlowId(1)) && reg.flows()[1] == (f, FlowId(2)));
        }
    }
    //@harness k_registry_register_2_1 mode=bounded bound="one registered flow of 2 entries, then a flow of 1 entry" timeout=1200
    #[kani::proof]
    #[kani::unwind(8)]
    fn k_registry_register_2_1() { register_contract(2, 1); }
    //@harness k_registry_register_2_2 mode=bounded bound="one registered flow of 2 entries, then a flow of 2 entries" timeout=1200
    #[kani::proof]
    #[kani::unwind(8)]
    fn k_registry_register_2_2() { register_contract(2, 2); }

    //@harness k_registry_contains_match_contract mode=bounded bound="one registered flow of 2 entries, query flow of 2 entries" timeout=900
    #[kani::proof]
    #[kani::unwind(8)]
    fn k_registry_contains_match_contract() {
        let mut reg = FlowRegistry::new();
        assert!(!reg.contains_match(&flow_n(1)));
        let f0 = flow_n(2);
        let _ = reg.register(f0.clone());
        let f = flow_n(2);
        assert!(reg.contains_match(&f) == !conflict(&f0, &f));
    }
}
