//@target crates/trippy-core/src/net/channel.rs
//@crate trippy-core
// C09: what a failing read on the receive socket means - "nothing to read yet" (EAGAIN / EWOULDBLOCK) is not an
// error, every other errno is a fatal receive error that reaches the caller unchanged.  Loop free over all errno
// values of the platform => complete.  (The error arm of recv_icmp_probe matches on io::ErrorKind, a std enum the
// Verus unit does not model.)
#[cfg(kani)]
mod verif_kani_recv_err {
    use super::*;
    use crate::error::{IoError, IoOperation, IoResult};
    use crate::net::socket::SocketError;
    use std::io;
    use std::net::{Ipv4Addr, Ipv6Addr, SocketAddr};

    const EAGAIN: i32 = 11;

    /// receive socket whose read / recv_from fails with the given errno
    struct FailingSock(i32);
    impl Socket for FailingSock {
        fn new_icmp_send_socket_ipv4(_: bool) -> IoResult<Self> { Ok(Self(0)) }
        fn new_icmp_send_socket_ipv6(_: bool) -> IoResult<Self> { Ok(Self(0)) }
        fn new_udp_send_socket_ipv4(_: bool) -> IoResult<Self> { Ok(Self(0)) }
        fn new_udp_send_socket_ipv6(_: bool) -> IoResult<Self> { Ok(Self(0)) }
        fn new_recv_socket_ipv4(_: Ipv4Addr, _: bool) -> IoResult<Self> { Ok(Self(0)) }
        fn new_recv_socket_ipv6(_: Ipv6Addr, _: bool) -> IoResult<Self> { Ok(Self(0)) }
        fn new_stream_socket_ipv4() -> IoResult<Self> { Ok(Self(0)) }
        fn new_stream_socket_ipv6() -> IoResult<Self> { Ok(Self(0)) }
        fn new_udp_dgram_socket_ipv4() -> IoResult<Self> { Ok(Self(0)) }
        fn new_udp_dgram_socket_ipv6() -> IoResult<Self> { Ok(Self(0)) }
        fn bind(&mut self, _: SocketAddr) -> IoResult<()> { Ok(()) }
        fn set_tos(&mut self, _: u32) -> IoResult<()> { Ok(()) }
        fn set_ttl(&mut self, _: u32) -> IoResult<()> { Ok(()) }
        fn set_reuse_port(&mut self, _: bool) -> IoResult<()> { Ok(()) }
        fn set_header_included(&mut self, _: bool) -> IoResult<()> { Ok(()) }
        fn set_unicast_hops_v6(&mut self, _: u8) -> IoResult<()> { Ok(()) }
        fn connect(&mut self, _: SocketAddr) -> IoResult<()> { Ok(()) }
        fn send_to(&mut self, _: &[u8], _: SocketAddr) -> IoResult<()> { Ok(()) }
        fn is_readable(&mut self, _: Duration) -> IoResult<bool> { Ok(true) }
        fn is_writable(&mut self) -> IoResult<bool> { Ok(false) }
        fn recv_from(&mut self, _: &mut [u8]) -> IoResult<(usize, Option<SocketAddr>)> {
            Err(IoError::Other(io::Error::from_raw_os_error(self.0), IoOperation::RecvFrom))
        }
        fn read(&mut self, _: &mut [u8]) -> IoResult<usize> {
            Err(IoError::Other(io::Error::from_raw_os_error(self.0), IoOperation::Read))
        }
        fn shutdown(&mut self) -> IoResult<()> { Ok(()) }
        fn peer_addr(&mut self) -> IoResult<Option<SocketAddr>> { Ok(None) }
        fn take_error(&mut self) -> IoResult<Option<SocketError>> { Ok(None) }
        fn icmp_error_info(&mut self) -> IoResult<IpAddr> { Ok(IpAddr::V4(Ipv4Addr::UNSPECIFIED)) }
    }

    fn check(r: Result<Option<Response>>, code: i32) {
        match r {
            Ok(None) => assert!(code == EAGAIN, "only would-block is not an error"),
            Ok(Some(_)) => assert!(false, "a failed read yields no response"),
            Err(Error::IoError(e)) => {
                assert!(code != EAGAIN, "would-block is not fatal");
                assert!(e.kind() == crate::error::ErrorKind::from(&io::Error::from_raw_os_error(code)), "the error is returned unchanged");
            }
            Err(_) => assert!(false, "a receive error stays an io error"),
        }
    }

    //@harness k4_recv_error_semantics mode=complete timeout=3000
    #[kani::proof]
    fn k4_recv_error_semantics() {
        let code: i32 = kani::any();
        kani::assume(code >= 1 && code <= 133);
        let c = Ipv4::default();
        let mut s = FailingSock(code);
        check(c.recv_icmp_probe(&mut s), code);
    }

    //@harness k6_recv_error_semantics mode=complete timeout=900
    #[kani::proof]
    fn k6_recv_error_semantics() {
        let code: i32 = kani::any();
        kani::assume(code >= 1 && code <= 133);
        let c = Ipv6::default();
        let mut s = FailingSock(code);
        check(c.recv_icmp_probe(&mut s), code);
    }
}
