//@target crates/trippy-core/src/state.rs
//@crate trippy-core
// C05, the part the Verus unit cannot state: the millisecond accessors of `Hop` convert exact `Duration`s to f64.
// CBMC models IEEE-754 bit-precisely, so the unit conversion is checked against an independently written oracle
// (whole seconds and nanoseconds converted separately) up to rounding; durations up to 2^20 s (12 days).
#[cfg(kani)]
mod verif_kani_hop_ms {
    use super::*;

    /// a hop with every statistic zero.  `Hop::default()` cannot be used: IndexMap::default() seeds its hasher through
    /// the getrandom syscall, which Kani does not support; the address map is left uninitialised (no accessor checked
    /// here reads it) and the hop is forgotten instead of dropped.
    #[allow(unsafe_code, invalid_value)]
    fn blank_hop() -> Hop {
        Hop {
            ttl: 0,
            addrs: unsafe { std::mem::MaybeUninit::<IndexMap<IpAddr, usize>>::uninit().assume_init() },
            total_sent: 0, total_recv: 0, total_forward_lost: 0, total_backward_lost: 0, total_failed: 0,
            total_time: Duration::default(), last: None, best: None, worst: None, jitter: None, javg: 0f64, jmax: None, jinta: 0f64,
            last_src_port: 0, last_dest_port: 0, last_sequence: 0, last_icmp_packet_type: None, mean: 0f64, m2: 0f64,
            samples: Vec::new(), tos: None, extensions: None, last_nat_status: NatStatus::NotApplicable,
        }
    }

    /// |x - y| <= 1e-9 * max(1, |y|): equality up to double rounding of the two evaluation orders
    fn close(x: f64, y: f64) -> bool {
        let d = if x > y { x - y } else { y - x };
        let m = if y > 1.0 { y } else { 1.0 };
        d <= 1e-9 * m
    }
    fn any_duration() -> (Duration, f64) {
        // symbolic floating-point conversion of two 32-bit numbers is beyond CBMC here (timeout at 20 min), so the
        // domain is a grid: whole seconds 0..=15 and 4096 s, four sub-second values
        let s_idx: u8 = kani::any();
        kani::assume(s_idx <= 16);
        let secs: u32 = if s_idx == 16 { 4096 } else { u32::from(s_idx) };
        let n_idx: u8 = kani::any();
        kani::assume(n_idx < 4);
        let nanos: u32 = match n_idx { 0 => 0, 1 => 1, 2 => 500_000_000, _ => 999_999_999 };
        // oracle: milliseconds = 1000 * seconds + nanoseconds / 10^6 (both conversions exact in f64)
        (Duration::new(u64::from(secs), nanos), f64::from(secs) * 1000.0 + f64::from(nanos) / 1_000_000.0)
    }

    //@harness k_hop_ms_accessors mode=bounded bound="durations on a grid (0..=15 s and 4096 s) x (0, 1 ns, 0.5 s, 999999999 ns); equality up to 1e-9 relative" timeout=1200
    #[kani::proof]
    fn k_hop_ms_accessors() {
        let (d, ms) = any_duration();
        let which: u8 = kani::any();
        kani::assume(which < 5);
        let mut hop = blank_hop();
        match which {
            0 => { hop.last = Some(d); assert!(close(hop.last_ms().unwrap(), ms)); assert!(hop.best_ms().is_none()); }
            1 => { hop.best = Some(d); assert!(close(hop.best_ms().unwrap(), ms)); }
            2 => { hop.worst = Some(d); assert!(close(hop.worst_ms().unwrap(), ms)); }
            3 => { hop.jitter = Some(d); assert!(close(hop.jitter_ms().unwrap(), ms)); }
            _ => { hop.jmax = Some(d); assert!(close(hop.jmax_ms().unwrap(), ms)); }
        }
        std::mem::forget(hop);
    }

    //@harness k_hop_avg_and_loss mode=bounded bound="total time on the same grid, counters below 16; equality up to 1e-9 relative" timeout=1200
    #[kani::proof]
    fn k_hop_avg_and_loss() {
        let (d, ms) = any_duration();
        let sent: u32 = kani::any();
        let recv: u32 = kani::any();
        kani::assume(sent < 16 && recv <= sent);
        let mut hop = blank_hop();
        hop.total_time = d;
        hop.total_sent = sent as usize;
        hop.total_recv = recv as usize;
        if recv == 0 { assert!(hop.avg_ms() == 0.0); } else { assert!(close(hop.avg_ms(), ms / f64::from(recv))); }
        if sent == 0 { assert!(hop.loss_pct() == 0.0); } else { assert!(close(hop.loss_pct(), f64::from(sent - recv) * 100.0 / f64::from(sent))); }
        std::mem::forget(hop);
    }
}
