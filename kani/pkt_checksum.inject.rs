//@target crates/trippy-packet/src/checksum.rs
//@crate trippy-packet
// Kani mirrors of the pkt_checksum contracts (C13): finalize_checksum over all 2^32 sums (complete), and the public
// checksum functions on symbolic data of a few concrete lengths (bounded) against an independent RFC 1071 adder.
#[cfg(kani)]
mod verif_kani_checksum {
    use super::*;

    /// independent one's-complement sum of 16-bit big-endian words (odd tail padded), folded
    fn ones_sum(data: &[u8], init: u64) -> u16 {
        let mut s: u64 = init;
        let mut i = 0;
        while i + 1 < data.len() { s += (u64::from(data[i]) << 8) | u64::from(data[i + 1]); i += 2; }
        if i < data.len() { s += u64::from(data[i]) << 8; }
        s = (s & 0xffff) + (s >> 16);
        s = (s & 0xffff) + (s >> 16);
        s = (s & 0xffff) + (s >> 16);
        s as u16
    }

    //@harness k_finalize_checksum_contract mode=complete timeout=600
    #[kani::proof]
    #[kani::unwind(4)]
    fn k_finalize_checksum_contract() {
        let s: u32 = kani::any();
        let mut x = u64::from(s);
        x = (x & 0xffff) + (x >> 16);
        x = (x & 0xffff) + (x >> 16);
        x = (x & 0xffff) + (x >> 16);
        assert!(finalize_checksum(s) == !(x as u16));          // one's complement of the end-around-carry fold
    }

    fn verifies<const N: usize>(which: u8) {
        let mut data: [u8; N] = kani::any();
        let s4 = Ipv4Addr::from(kani::any::<[u8; 4]>()); let d4 = Ipv4Addr::from(kani::any::<[u8; 4]>());
        // two symbolic segments per IPv6 address (all 16 symbolic octets made the SAT problem intractable)
        let s6 = Ipv6Addr::new(kani::any(), 0, 0, 0, 0, 0, 0, kani::any()); let d6 = Ipv6Addr::new(0xffff, kani::any(), 0, 0, 0, 0, kani::any(), 0xffff);
        let p4 = |proto: u64| { let a = s4.octets(); let b = d4.octets();
            ((u64::from(a[0]) << 8) | u64::from(a[1])) + ((u64::from(a[2]) << 8) | u64::from(a[3])) + ((u64::from(b[0]) << 8) | u64::from(b[1])) + ((u64::from(b[2]) << 8) | u64::from(b[3])) + proto + N as u64 };
        let p6 = |proto: u64| { let mut t = proto + N as u64; let a = s6.segments(); let b = d6.segments(); let mut i = 0; while i < 8 { t += u64::from(a[i]) + u64::from(b[i]); i += 1; } t };
        // (checksum, offset of the checksum field, pseudo header sum)
        let (c, off, pseudo) = match which {
            0 => (icmp_ipv4_checksum(&data), 2, 0),
            1 => (udp_ipv4_checksum(&data, s4, d4), 6, p4(17)),
            2 => (tcp_ipv4_checksum(&data, s4, d4), 16, p4(6)),
            3 => (udp_ipv6_checksum(&data, s6, d6), 6, p6(17)),
            4 => (icmp_ipv6_checksum(&data, s6, d6), 2, p6(58)),
            _ => (ipv4_header_checksum(&data), 10, 0),
        };
        data[off] = (c >> 8) as u8; data[off + 1] = c as u8;
        assert!(ones_sum(&data, pseudo) == 0xffff);           // the datagram with the checksum inserted verifies
    }
    //@harness k_checksum_verifies_icmp4 mode=bounded bound="ICMP messages of 13 octets (odd), all contents" timeout=600
    #[kani::proof]
    #[kani::unwind(20)]
    fn k_checksum_verifies_icmp4() { verifies::<13>(0); }
    //@harness k_checksum_verifies_udp4 mode=bounded bound="UDP datagrams of 13 octets, all contents and addresses" timeout=600
    #[kani::proof]
    #[kani::unwind(20)]
    fn k_checksum_verifies_udp4() { verifies::<13>(1); }
    //@harness k_checksum_verifies_tcp4 mode=bounded bound="TCP segments of 22 octets, all contents and addresses" timeout=600
    #[kani::proof]
    #[kani::unwind(20)]
    fn k_checksum_verifies_tcp4() { verifies::<22>(2); }
    //@harness k_checksum_verifies_udp6 mode=bounded bound="UDP datagrams of 13 octets, all contents; IPv6 addresses with 2 symbolic segments each" timeout=600
    #[kani::proof]
    #[kani::unwind(20)]
    fn k_checksum_verifies_udp6() { verifies::<13>(3); }
    //@harness k_checksum_verifies_icmp6 mode=bounded bound="ICMPv6 messages of 13 octets, all contents; IPv6 addresses with 2 symbolic segments each" timeout=600
    #[kani::proof]
    #[kani::unwind(20)]
    fn k_checksum_verifies_icmp6() { verifies::<13>(4); }
    //@harness k_checksum_verifies_ipv4hdr mode=bounded bound="IPv4 headers of 20 octets, all contents" timeout=600
    #[kani::proof]
    #[kani::unwind(20)]
    fn k_checksum_verifies_ipv4hdr() { verifies::<20>(5); }
}
