"""Field table of the packet views, transcribed from the RFCs (the oracle of
C12 / C11 / C04a).  Positions are (byte offset, bit offset counted from the
most significant bit of that byte, width in bits); all fields are big-endian
(network byte order).

  RFC 791  (IPv4 header)          RFC 8200 (IPv6 header)
  RFC 768  (UDP)                  RFC 9293 + RFC 3540 (TCP; 9-bit flags incl. NS, 3 reserved bits)
  RFC 792  (ICMPv4)               RFC 4443 (ICMPv6)
  RFC 4884 (length attribute: ICMPv4 octet 5 in 32-bit words, ICMPv6 octet 4 in 64-bit words;
            extension header: version = high nibble of octet 0, checksum octets 2-3;
            object header: length octets 0-1, class-num octet 2, c-type octet 3)
  RFC 4950 / RFC 3032 (MPLS label stack entry: label 20 bits, EXP 3, S 1, TTL 8)

kind:
  uint   unsigned integer field (getter returns it, setter stores the low `width` bits)
  enum   one octet converted through <Type>::from(u8) / .id()
  newt   one octet wrapped in a tuple newtype (IcmpCode, ClassSubType)
  addr4 / addr6   address octets
"""

P = 'crates/trippy-packet/src/'


def F(name, off, bit, width, ty, kind='uint', conv=None, get=None, set=None):
    return dict(name=name, off=off, bit=bit, width=width, ty=ty, kind=kind, conv=conv,
                get=get or 'get_' + name, set=set or 'set_' + name)


ICMP_COMMON = [
    F('icmp_type', 0, 0, 8, 'IcmpType', 'enum', 'IcmpType'),
    F('icmp_code', 1, 0, 8, 'IcmpCode', 'newt', 'IcmpCode'),
    F('checksum', 2, 0, 16, 'u16'),
]
ECHO = ICMP_COMMON + [F('identifier', 4, 0, 16, 'u16'), F('sequence', 6, 0, 16, 'u16')]


def icmp_views(fam, file, len_off):
    return [
        dict(name='IcmpPacket', file=file, mod=[], crate_mod=fam, min=8, fields=ICMP_COMMON, extra=['packet']),
        dict(name='EchoRequestPacket', file=file, mod=['echo_request'], crate_mod=fam + '::echo_request', min=8, fields=ECHO,
             extra=['set_payload', 'packet', 'payload_tail']),
        dict(name='EchoReplyPacket', file=file, mod=['echo_reply'], crate_mod=fam + '::echo_reply', min=8, fields=ECHO,
             extra=['set_payload', 'packet', 'payload_tail']),
        dict(name='TimeExceededPacket', file=file, mod=['time_exceeded'], crate_mod=fam + '::time_exceeded', min=8,
             fields=ICMP_COMMON + [F('length', len_off, 0, 8, 'u8')],
             extra=['set_payload', 'packet', 'payload_raw', 'icmp_ext'], len_unit=4 if fam == 'icmpv4' else 8),
        dict(name='DestinationUnreachablePacket', file=file, mod=['destination_unreachable'], crate_mod=fam + '::destination_unreachable', min=8,
             fields=ICMP_COMMON + [F('length', len_off, 0, 8, 'u8'), F('next_hop_mtu', 6, 0, 16, 'u16')],
             extra=['set_payload', 'packet', 'payload_raw', 'icmp_ext'], len_unit=4 if fam == 'icmpv4' else 8),
    ]


VIEWS = [
    dict(name='Ipv4Packet', file=P + 'ipv4.rs', mod=[], crate_mod='ipv4', min=20, fields=[
        F('version', 0, 0, 4, 'u8'),
        F('header_length', 0, 4, 4, 'u8'),
        F('dscp', 1, 0, 6, 'u8'),
        F('ecn', 1, 6, 2, 'u8'),
        F('tos', 1, 0, 8, 'u8'),
        F('total_length', 2, 0, 16, 'u16'),
        F('identification', 4, 0, 16, 'u16'),
        F('flags_and_fragment_offset', 6, 0, 16, 'u16'),
        F('ttl', 8, 0, 8, 'u8'),
        F('protocol', 9, 0, 8, 'IpProtocol', 'enum', 'IpProtocol'),
        F('checksum', 10, 0, 16, 'u16'),
        F('source', 12, 0, 32, 'Ipv4Addr', 'addr4'),
        F('destination', 16, 0, 32, 'Ipv4Addr', 'addr4'),
    ], extra=['packet', 'ipv4_special']),
    dict(name='Ipv6Packet', file=P + 'ipv6.rs', mod=[], crate_mod='ipv6', min=40, fields=[
        F('version', 0, 0, 4, 'u8'),
        F('traffic_class', 0, 4, 8, 'u8'),
        F('flow_label', 1, 4, 20, 'u32'),
        F('payload_length', 4, 0, 16, 'u16'),
        F('next_header', 6, 0, 8, 'IpProtocol', 'enum', 'IpProtocol'),
        F('hop_limit', 7, 0, 8, 'u8'),
        F('source_address', 8, 0, 128, 'Ipv6Addr', 'addr6'),
        F('destination_address', 24, 0, 128, 'Ipv6Addr', 'addr6'),
    ], extra=['packet', 'ipv6_special']),
    dict(name='UdpPacket', file=P + 'udp.rs', mod=[], crate_mod='udp', min=8, fields=[
        F('source', 0, 0, 16, 'u16'),
        F('destination', 2, 0, 16, 'u16'),
        F('length', 4, 0, 16, 'u16'),
        F('checksum', 6, 0, 16, 'u16'),
    ], extra=['set_payload', 'packet', 'payload_tail']),
    dict(name='TcpPacket', file=P + 'tcp.rs', mod=[], crate_mod='tcp', min=20, fields=[
        F('source', 0, 0, 16, 'u16'),
        F('destination', 2, 0, 16, 'u16'),
        F('sequence', 4, 0, 32, 'u32'),
        F('acknowledgement', 8, 0, 32, 'u32'),
        F('data_offset', 12, 0, 4, 'u8'),
        F('reserved', 12, 4, 3, 'u8'),
        F('flags', 12, 7, 9, 'u16'),
        F('window_size', 14, 0, 16, 'u16'),
        F('checksum', 16, 0, 16, 'u16'),
        F('urgent_pointer', 18, 0, 16, 'u16'),
    ], extra=['packet', 'tcp_special']),
] + icmp_views('icmpv4', P + 'icmpv4.rs', 5) + icmp_views('icmpv6', P + 'icmpv6.rs', 4) + [
    dict(name='ExtensionsPacket', file=P + 'icmp_extension.rs', mod=['extension_structure'], crate_mod='icmp_extension::extension_structure', min=4,
         fields=[], extra=['packet', 'extensions_special']),
    dict(name='ExtensionHeaderPacket', file=P + 'icmp_extension.rs', mod=['extension_header'], crate_mod='icmp_extension::extension_header', min=4, fields=[
        F('version', 0, 0, 4, 'u8'),
        F('checksum', 2, 0, 16, 'u16'),
    ], extra=['packet']),
    dict(name='ExtensionObjectPacket', file=P + 'icmp_extension.rs', mod=['extension_object'], crate_mod='icmp_extension::extension_object', min=4, fields=[
        F('length', 0, 0, 16, 'u16'),
        F('class_num', 2, 0, 8, 'ClassNum', 'enum', 'ClassNum'),
        F('class_subtype', 3, 0, 8, 'ClassSubType', 'newt', 'ClassSubType'),
    ], extra=['set_payload', 'packet', 'extobj_special']),
    dict(name='MplsLabelStackPacket', file=P + 'icmp_extension.rs', mod=['mpls_label_stack'], crate_mod='icmp_extension::mpls_label_stack', min=4,
         fields=[], extra=['packet', 'mpls_special']),
    dict(name='MplsLabelStackMemberPacket', file=P + 'icmp_extension.rs', mod=['mpls_label_stack_member'], crate_mod='icmp_extension::mpls_label_stack_member', min=4, fields=[
        F('label', 0, 0, 20, 'u32'),
        F('exp', 2, 4, 3, 'u8'),
        F('bos', 2, 7, 1, 'u8'),
        F('ttl', 3, 0, 8, 'u8'),
    ], extra=['packet']),
]

# IANA numbers (oracle for the enum conversions)
ENUMS = {
    'IpProtocol': dict(file=P + 'lib.rs', mod=[], variants=[('Icmp', 1), ('IcmpV6', 58), ('Udp', 17), ('Tcp', 6)], id_self='self'),
    'IcmpType@icmpv4': dict(file=P + 'icmpv4.rs', mod=[], variants=[('EchoRequest', 8), ('EchoReply', 0), ('DestinationUnreachable', 3), ('TimeExceeded', 11)], id_self='&self'),
    'IcmpType@icmpv6': dict(file=P + 'icmpv6.rs', mod=[], variants=[('EchoRequest', 128), ('EchoReply', 129), ('DestinationUnreachable', 1), ('TimeExceeded', 3)], id_self='&self'),
    'ClassNum': dict(file=P + 'icmp_extension.rs', mod=['extension_object'], variants=[('MultiProtocolLabelSwitchingLabelStack', 1), ('InterfaceInformationObject', 2),
                                                                                         ('InterfaceIdentificationObject', 3), ('ExtendedInformation', 4)], id_self='&self'),
}


def chunks(f):
    """per-byte decomposition of a uint field: list of dicts
    {byte, mask, lshift (chunk LSB position inside the byte), nbits, rshift (field bits below this chunk)}"""
    res = []
    first_bit = f['off'] * 8 + f['bit']
    last_bit = first_bit + f['width'] - 1
    for byte in range(first_bit // 8, last_bit // 8 + 1):
        a = max(first_bit, byte * 8) - byte * 8          # MSB-numbered start bit inside byte
        b = min(last_bit, byte * 8 + 7) - byte * 8        # MSB-numbered end bit inside byte
        n = b - a + 1
        lshift = 7 - b
        mask = ((1 << n) - 1) << lshift
        rshift = last_bit - (byte * 8 + b)
        res.append(dict(byte=byte, mask=mask, lshift=lshift, nbits=n, rshift=rshift))
    return res
