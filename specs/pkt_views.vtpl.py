#!/usr/bin/env python3
"""Generator of the `pkt_views` Verus template from the RFC field table
(specs/rfc_fields.py).  Prints the template on stdout.

For every view it emits, per accessor, `signature (copied mechanically from
the real source) + contract (derived from the field table only) + //@body
directive`.  Bit-vector proof hints are derived mechanically from the *current*
code expression (so a semantics-preserving rewrite of a mask keeps the proof,
and a wrong mask fails the `by (bit_vector)` assertion inside that function).
"""
import os
import re
import sys

HERE = os.path.dirname(os.path.abspath(__file__))
sys.path.insert(0, HERE)
sys.path.insert(0, os.path.join(os.path.dirname(HERE), 'lib'))
import rsrc  # noqa: E402
from rfc_fields import VIEWS, ENUMS, chunks, P  # noqa: E402

REPO = os.environ.get('VERIF_REPO', '/repo')
out = []
_src = {}


def emit(s=''):
    out.append(s)


def src(file):
    if file not in _src:
        _src[file] = rsrc.Source(os.path.join(REPO, file))
    return _src[file]


def find(file, path):
    return src(file).find(path)


def real_sig(file, path):
    """the real fn header, with `-> T` turned into `-> (r: T)`"""
    it = find(file, path)
    h = rsrc.strip_attrs(rsrc.blank(it.header()))
    # use original text (not blanked) for the header minus attrs: headers hold no strings/comments normally
    h = re.sub(r'\s+', ' ', h).strip()
    m = re.search(r'->\s*(.*)$', h)
    if m:
        h = h[:m.start()] + '-> (r: ' + m.group(1).strip() + ')'
    return h, it


def consts_in(file, modpath):
    """numeric usize consts declared in the module"""
    s = src(file)
    lo, hi = 0, len(s.src)
    for m in modpath:
        it = s.find(['mod ' + x for x in modpath[:modpath.index(m) + 1]])
        lo, hi = it.interior()
    res = {}
    for it in rsrc.items(s.src, s.clean, lo, hi):
        if it.kind == 'const':
            mm = re.search(r'const\s+(\w+)\s*:\s*usize\s*=\s*(\d+)\s*;', it.text())
            if mm:
                res[mm.group(1)] = int(mm.group(2))
    return res


def hexu8(v):
    return '0x%02xu8' % v


# ---------------------------------------------------------------- spec expressions from the table
def getter_spec(f, b='self.bytes()'):
    cs = chunks(f)
    if len(cs) == 1 and f['ty'] == 'u8':
        c = cs[0]
        if c['nbits'] == 8:
            return 'r == %s[%d]' % (b, c['byte'])
        if c['lshift'] == 0:
            return 'r == %s[%d] & %s' % (b, c['byte'], hexu8(c['mask']))
        return 'r == (%s[%d] & %s) >> %du8' % (b, c['byte'], hexu8(c['mask']), c['lshift'])
    terms = []
    for c in cs:
        if c['nbits'] == 8:
            t = '%s[%d] as int' % (b, c['byte'])
        elif c['lshift'] == 0:
            t = '(%s[%d] & %s) as int' % (b, c['byte'], hexu8(c['mask']))
        else:
            t = '((%s[%d] & %s) >> %du8) as int' % (b, c['byte'], hexu8(c['mask']), c['lshift'])
        if c['rshift']:
            t += ' * %d' % (1 << c['rshift'])
        terms.append(t)
    return 'r as int == ' + ' + '.join(terms)


def setter_byte_spec(f, c, val='val', o=None):
    """value of byte c['byte'] after storing the low `width` bits of val"""
    o = o or 'old(self).bytes()[%d]' % c['byte']
    wide = f['ty'] != 'u8'
    if c['nbits'] == 8:
        if not wide:
            return val
        if c['rshift'] == 0:
            return '(%s as int %% 256) as u8' % val
        return '((%s as int / %d) %% 256) as u8' % (val, 1 << c['rshift'])
    ch = val if c['rshift'] == 0 else '(%s >> %d%s)' % (val, c['rshift'], f['ty'])
    if wide:
        ch = '(%s as u8)' % ch
    if c['lshift']:
        ch = '(%s << %du8)' % (ch, c['lshift'])
    return '(%s & !%s) | (%s & %s)' % (o, hexu8(c['mask']), ch, hexu8(c['mask']))


def setter_spec(f):
    cs = chunks(f)
    e = 'old(self).bytes()'
    for c in cs:
        e += '.update(%d, %s)' % (c['byte'], setter_byte_spec(f, c))
    return 'final(self).bytes() =~= ' + e


# ---------------------------------------------------------------- mechanical hint extraction
def eval_off(expr, consts):
    expr = expr.strip()
    m = re.match(r'^(\w+)(?:\s*\+\s*(\d+))?$', expr)
    if not m:
        return None
    base = consts.get(m.group(1))
    if base is None:
        if m.group(1).isdigit():
            base = int(m.group(1))
        else:
            return None
    return base + int(m.group(2) or 0)


READ_RE = re.compile(r'self\.buf\.read\(([^()]*)\)')


def subst_reads(expr, consts, var):
    ok = True

    def rep(m):
        nonlocal ok
        o = eval_off(m.group(1), consts)
        if o is None:
            ok = False
            return m.group(0)
        return var % o
    e = READ_RE.sub(rep, expr)
    return e if ok else None


BITEXPR_RE = re.compile(r'^[\s\w()&|<>!~^+*-]+$')


def getter_hint(f, body, consts):
    """body is `{ <single expression> }` (possibly with let b0/b1)"""
    inner = body.strip()[1:-1].strip()
    if ';' in inner or 'from_be_bytes' in inner or 'get_bytes' in inner:
        return None
    e = subst_reads(inner, consts, 'o%d')
    if e is None or not BITEXPR_RE.match(e):
        return None
    cs = chunks(f)
    if len(cs) != 1 or f['ty'] != 'u8':
        return None
    c = cs[0]
    spec = getter_spec(f, 'OO').replace('r == ', '').replace('OO[%d]' % c['byte'], 'o%d' % c['byte'])
    decl = 'let o%d = self.bytes()[%d];' % (c['byte'], c['byte'])
    return 'proof { %s assert((%s) == (%s)) by (bit_vector); }' % (decl, e, spec)


WRITE_RE = re.compile(r'\*self\.buf\.write\(([^()]*)\)\s*=\s*([^;]+);', re.S)


def setter_hint(f, body, consts, argname):
    """returns (anchor_kind, hint) or None.  Mechanical: for every
    `*self.buf.write(X) = EXPR;` of the real body emit
    `assert(EXPR[read->o, bytes[i]->b_i] == <table spec>) by (bit_vector)`."""
    ws = WRITE_RE.findall(body)
    if not ws:
        return None
    cs = {c['byte']: c for c in chunks(f)}
    ty = f['ty']
    pre, facts = [], []
    where = 'top'
    E = None
    mb = re.search(r'let bytes = (.+?)\.to_be_bytes\(\);', body)
    if mb:
        E = mb.group(1).strip()
        where = 'after'
        n = {'u16': 2, 'u32': 4}.get(ty)
        if n is None:
            return None
    decls, asserts = [], []
    used_b = {}
    for offexpr, e in ws:
        o = eval_off(offexpr, consts)
        if o is None or o not in cs:
            return None
        e2 = subst_reads(re.sub(r'\s+', ' ', e), consts, 'o%d')
        if e2 is None:
            return None
        for i in sorted(set(int(x) for x in re.findall(r'\bbytes\[(\d)\]', e2))):
            if E is None:
                return None
            sh = 8 * (n - 1 - i)
            used_b[i] = sh
        e2 = re.sub(r'\bbytes\[(\d)\]', r'b\1', e2)
        if not BITEXPR_RE.match(e2):
            return None
        c = cs[o]
        if c['nbits'] == 8:
            if ty == 'u8':
                continue
            # full octet of a wide value: arithmetic spec; bridge only when the code shifts the value first
            mi = re.match(r'^b(\d)$', e2.strip())
            if mi and E is not None and (E != argname or used_b[int(mi.group(1))] != c['rshift']):
                sh = used_b[int(mi.group(1))]
                asserts.append('assert((%s / %d%s) %% 256%s == (%s / %d%s) %% 256%s) by (bit_vector);' % (E, 1 << sh, ty, ty, argname, 1 << c['rshift'], ty, ty))
            continue
        spec = setter_byte_spec(f, c, argname, 'o%d' % o)
        for k in sorted(set(int(x) for x in re.findall(r'\bo(\d+)\b', e2 + spec))):
            d = 'let o%d = old(self).bytes()[%d];' % (k, k)
            if d not in decls:
                decls.append(d)
        bs = sorted(set(int(x) for x in re.findall(r'\bb(\d)\b', e2)))
        req = ''
        if bs:
            req = ' requires ' + ', '.join('b%d == ((%s >> %d%s) & 0xff%s) as u8' % (i, E, used_b[i], ty, ty) for i in bs)
        asserts.append('assert((%s) == (%s)) by (bit_vector)%s;' % (e2, spec, req))
    for i, sh in sorted(used_b.items()):
        decls.append('let b%d = bytes[%d];' % (i, i))
        facts.append('assert(b%d == ((%s >> %d%s) & 0xff%s) as u8) by (bit_vector) requires b%d as %s == (%s / %d%s) %% 256%s;' % (i, E, sh, ty, ty, i, ty, E, 1 << sh, ty, ty))
    if not asserts and not facts:
        return None
    return where, 'proof { %s %s %s }' % (' '.join(decls), ' '.join(facts), ' '.join(asserts))


# ---------------------------------------------------------------- template pieces
PRELUDE = r'''#![allow(unused_imports, dead_code, unused_variables, unused_mut, unused_parens, non_snake_case)]
use vstd::prelude::*;
use std::net::{Ipv4Addr, Ipv6Addr};

verus! {

//@include pkt_prelude.vtpl

pub mod error {
    use vstd::prelude::*;
    //@item crates/trippy-packet/src/error.rs :: type Result
    //@item crates/trippy-packet/src/error.rs :: enum Error
}

pub mod buffer {
    use vstd::prelude::*;
    //@item crates/trippy-packet/src/buffer.rs :: enum Buffer

    impl Buffer<'_> {
        pub open spec fn view(&self) -> Seq<u8> { match self { Buffer::Immutable(p) => p@, Buffer::Mutable(p) => p@ } }
        pub open spec fn is_mut(&self) -> bool { self is Mutable }

        //@prop C04:body C12:post
        pub fn as_slice(&self) -> (r: &[u8])
            ensures r@ == self.view(),
        //@body crates/trippy-packet/src/buffer.rs :: impl Buffer :: fn as_slice

        // `core::array::from_fn` with a capturing closure is outside the Verus subset: trusted contract,
        // discharged separately by the Kani harnesses k_buffer_get_bytes_{2,4,16} (loop fully unwound).
        #[verifier::external_body]
        pub fn get_bytes<const N: usize>(&self, offset: usize) -> (r: [u8; N])
            requires offset + N <= self.view().len(),
            ensures r@ == self.view().subrange(offset as int, offset + N),
        { core::array::from_fn(|i| self.read(offset + i)) }

        //@prop C04:body C12:post
        pub fn set_bytes<const N: usize>(&mut self, offset: usize, bytes: [u8; N])
            requires old(self).is_mut(), offset + N <= old(self).view().len() <= usize::MAX,
            ensures final(self).is_mut(), final(self).view().len() == old(self).view().len(),
                forall|k: int| #![trigger final(self).view()[k]] 0 <= k < old(self).view().len() ==> final(self).view()[k] == (if offset <= k < offset + N { bytes[k - offset] } else { old(self).view()[k] }),
        //@body crates/trippy-packet/src/buffer.rs :: impl Buffer :: fn set_bytes

        //@prop C04:body C12:post
        pub fn read(&self, offset: usize) -> (r: u8)
            requires offset < self.view().len(),
            ensures r == self.view()[offset as int],
        //@body crates/trippy-packet/src/buffer.rs :: impl Buffer :: fn read

        //@prop C04:body C12:post
        pub fn write(&mut self, offset: usize) -> (r: &mut u8)
            requires old(self).is_mut(), offset < old(self).view().len(),
            ensures *r == old(self).view()[offset as int], final(self).is_mut(),
                final(self).view() == old(self).view().update(offset as int, *final(r)),
        //@body crates/trippy-packet/src/buffer.rs :: impl Buffer :: fn write

        //@prop C04:body C12:post
        pub fn as_slice_mut(&mut self) -> (r: &mut [u8])
            requires old(self).is_mut(),
            ensures r@ == old(self).view(), final(self).is_mut(), final(self).view() == final(r)@,
        //@body crates/trippy-packet/src/buffer.rs :: impl Buffer :: fn as_slice_mut
    }
}
'''


def enum_block(key, indent='    '):
    name = key.split('@')[0]
    e = ENUMS[key]
    path = ['mod ' + m for m in e['mod']]
    fq = name
    emit(indent + '//@item %s :: %s :: derive(Clone, Copy)' % (e['file'], ' :: '.join(path + ['enum ' + name])))
    arms_id = ', '.join('%s::%s => %du8' % (name, v, n) for v, n in e['variants'])
    emit(indent + '/// IANA numbers')
    emit(indent + 'pub open spec fn spec_%s_id(x: %s) -> u8 { match x { %s, %s::Other(id) => id } }' % (name, name, arms_id, name))
    conds = ''.join('if v == %d { %s::%s } else ' % (n, name, v) for v, n in e['variants'])
    emit(indent + 'pub open spec fn spec_%s_from(v: u8) -> %s { %s{ %s::Other(v) } }' % (name, name, conds, name))
    emit(indent + 'impl %s {' % name)
    sig, it = real_sig(e['file'], path + ['impl ' + name, 'fn id'])
    emit(indent + '    //@prop C12')
    emit(indent + '    ' + sig)
    selfexpr = '*self' if '&self' in sig else 'self'
    emit(indent + '        ensures r == spec_%s_id(%s),   // [C12 %s-id-iana]' % (name, selfexpr, name))
    emit(indent + '    //@body %s :: %s' % (e['file'], ' :: '.join(path + ['impl ' + name, 'fn id'])))
    # From<u8> impl -> inherent fn (T5)
    fpath = path + ['impl From<u8> for ' + name, 'fn from']
    sig, it = real_sig(e['file'], fpath)
    argname = re.search(r'fn from\((\w+)', sig).group(1)
    emit(indent + '    //@prop C12')
    emit(indent + '    pub ' + sig)
    emit(indent + '        ensures r == spec_%s_from(%s),   // [C12 %s-from-iana]' % (name, argname, name))
    emit(indent + '    //@body %s :: %s' % (e['file'], ' :: '.join(fpath)))
    emit(indent + '}')
    emit(indent + 'pub proof fn lemma_%s_roundtrip(v: u8) ensures spec_%s_id(spec_%s_from(v)) == v {}' % (name, name, name))


def newt_block(file, modpath, name, indent='    '):
    path = ['mod ' + m for m in modpath]
    emit(indent + '//@item %s :: %s :: derive(Clone, Copy)' % (file, ' :: '.join(path + ['struct ' + name])))
    fpath = path + ['impl From<u8> for ' + name, 'fn from']
    sig, it = real_sig(file, fpath)
    argname = re.search(r'fn from\((\w+)', sig).group(1)
    emit(indent + 'impl %s {' % name)
    emit(indent + '    //@prop C12')
    emit(indent + '    pub ' + sig)
    emit(indent + '        ensures r.0 == %s,' % argname)
    emit(indent + '    //@body %s :: %s' % (file, ' :: '.join(fpath)))
    emit(indent + '}')


def view_block(v, indent='    ', fam=None):
    name, file, MIN = v['name'], v['file'], v['min']
    path = ['mod ' + m for m in v['mod']]
    ip = path + ['impl ' + name]
    consts = consts_in(file, v['mod'])
    for cn in consts:
        emit(indent + '//@item %s :: %s' % (file, ' :: '.join(path + ['const ' + cn])))
    emit(indent + '//@item %s :: %s' % (file, ' :: '.join(path + ['struct ' + name])))
    impl_it = find(file, ip)
    impl_hdr = re.sub(r'\s+', ' ', impl_it.header()).strip()
    emit(indent + impl_hdr + ' {')
    I = indent + '    '
    emit(I + 'pub open spec fn bytes(&self) -> Seq<u8> { self.buf.view() }')
    emit(I + 'pub open spec fn wf(&self) -> bool { %d <= self.bytes().len() <= usize::MAX }' % MIN)
    emit(I + 'pub open spec fn is_mut(&self) -> bool { self.buf.is_mut() }')
    emit()

    def fn(fname, props, contract, opts=(), sigmod=None):
        sig, it = real_sig(file, ip + ['fn ' + fname])
        if sigmod:
            sig = sigmod(sig)
        emit(I + '//@prop ' + props)
        emit(I + sig)
        for ln in contract:
            emit(I + '    ' + ln)
        emit(I + '//@body %s :: %s' % (file, ' :: '.join(ip + ['fn ' + fname])))
        for o in opts:
            emit(I + '//@+ ' + o)
        emit()
        return it

    # constructors
    fn('new', 'C04:body C12:post', [
        'ensures (r is Ok) == (old(packet)@.len() >= %d),   // [C12 %s-new-ok-iff-min-size]' % (MIN, name),
        '        r is Ok ==> r->Ok_0.bytes() == old(packet)@ && r->Ok_0.is_mut() && r->Ok_0.wf(),'])
    fn('new_view', 'C04:body C12:post', [
        'ensures (r is Ok) == (packet@.len() >= %d),   // [C12 %s-new_view-ok-iff-min-size]' % (MIN, name),
        '        r is Ok ==> r->Ok_0.bytes() == packet@ && !r->Ok_0.is_mut() && r->Ok_0.wf(),'])
    fn('minimum_packet_size', 'C12', ['ensures r == %d,   // [C12 %s-minimum-size]' % (MIN, name)])

    for f in v['fields']:
        g, s = f['get'], f['set']
        tag = '%s-%s' % (name, f['name'])
        if f['kind'] == 'uint' and f['name'] == 'tos':
            # composite: calls get_dscp/get_ecn, set_dscp/set_ecn; spec = the whole octet
            fn(g, 'C04:body C12:post', ['requires self.wf(),', 'ensures r == self.bytes()[1],   // [C12 %s-get]' % tag],
               ['top <<< proof { let o = self.bytes()[1]; assert((((o & 0xfcu8) >> 2u8) << 2u8) | (o & 0x03u8) == o) by (bit_vector); } >>>'])
            fn(s, 'C04:body C12:post', ['requires old(self).wf(), old(self).is_mut(),',
                                        'ensures final(self).is_mut(), final(self).bytes() =~= old(self).bytes().update(1, val),   // [C12 %s-set]' % tag],
               ['top <<< proof { let o = old(self).bytes()[1]; assert(((((o & !0xfcu8) | ((((val & 0xfcu8) >> 2u8) << 2u8) & 0xfcu8)) & !0x03u8) | ((val & 0x03u8) & 0x03u8)) == val) by (bit_vector); } >>>'])
            continue
        if f['kind'] == 'uint':
            git = find(file, ip + ['fn ' + g])
            body = git.body()
            opts = []
            if 'u16::from_be_bytes' in body or 'u32::from_be_bytes' in body:
                pass  # global T4 rewrite
            h = getter_hint(f, body, consts)
            if h:
                opts.append('top <<< %s >>>' % h)
            opts += GETTER_EXTRA.get((name, f['name']), [])
            fn(g, 'C04:body C12:post', ['requires self.wf(),', 'ensures %s,   // [C12 %s-get]' % (getter_spec(f), tag)], opts)
            sit = find(file, ip + ['fn ' + s])
            sbody = sit.body()
            argname = re.search(r'fn\s+\w+\s*\(\s*&mut self\s*,\s*(\w+)', sit.header()).group(1)
            opts = []
            mtb = re.search(r'(\([^()]*\)|\b\w+)\.to_be_bytes\(\)', sbody)
            if mtb:
                opts.append('rw "%s.to_be_bytes()" => "%s_to_be_bytes(%s)"' % (mtb.group(1), f['ty'], mtb.group(1)))
            h = setter_hint(f, sbody, consts, argname)
            if h and h[0] == 'top':
                opts.append('top <<< %s >>>' % h[1])
            elif h:
                opts.append('after "let bytes =" <<< %s >>>' % h[1])
            opts += SETTER_EXTRA.get((name, f['name']), [])
            spec = setter_spec(f).replace('val', argname) if argname != 'val' else setter_spec(f)
            fn(s, 'C04:body C12:post', ['requires old(self).wf(), old(self).is_mut(),',
                                        'ensures final(self).is_mut(), %s,   // [C12 %s-set]' % (spec, tag)], opts)
        elif f['kind'] == 'enum':
            T = f['conv']
            fn(g, 'C04:body C12:post', ['requires self.wf(),', 'ensures r == spec_%s_from(self.bytes()[%d]),   // [C12 %s-get]' % (T, f['off'], tag)])
            fn(s, 'C04:body C12:post', ['requires old(self).wf(), old(self).is_mut(),',
                                        'ensures final(self).is_mut(), final(self).bytes() =~= old(self).bytes().update(%d, spec_%s_id(val)),   // [C12 %s-set]' % (f['off'], T, tag)])
        elif f['kind'] == 'newt':
            fn(g, 'C04:body C12:post', ['requires self.wf(),', 'ensures r.0 == self.bytes()[%d],   // [C12 %s-get]' % (f['off'], tag)])
            fn(s, 'C04:body C12:post', ['requires old(self).wf(), old(self).is_mut(),',
                                        'ensures final(self).is_mut(), final(self).bytes() =~= old(self).bytes().update(%d, val.0),   // [C12 %s-set]' % (f['off'], tag)])
        elif f['kind'] in ('addr4', 'addr6'):
            n = 4 if f['kind'] == 'addr4' else 16
            k = f['kind'][-1]
            fn(g, 'C04:body C12:post', ['requires self.wf(),',
                                        'ensures spec_octets%s(r) == self.bytes().subrange(%d, %d),   // [C12 %s-get]' % (k, f['off'], f['off'] + n, tag)],
               ['rw "Ipv%sAddr::from(" => "ipv%s_from_octets("' % (k, k)])
            fn(s, 'C04:body C12:post', ['requires old(self).wf(), old(self).is_mut(),',
                                        'ensures final(self).is_mut(), final(self).bytes().len() == old(self).bytes().len(),   // [C12 %s-set]' % tag,
                                        '    forall|k: int| #![trigger final(self).bytes()[k]] 0 <= k < old(self).bytes().len() ==> final(self).bytes()[k] == (if %d <= k < %d { spec_octets%s(val)[k - %d] } else { old(self).bytes()[k] }),' % (f['off'], f['off'] + n, k, f['off']),
                                        '    spec_octets%s(val).len() == %d,' % (k, n)],
               ['rw "val.octets()" => "ipv%s_octets(val)"' % k])

    for x in v['extra']:
        if x == 'packet':
            fn('packet', 'C04:body C12:post', ['ensures r@ == self.bytes(),'])
        elif x == 'set_payload':
            fn('set_payload', 'C04:body C11:post', [
                'requires old(self).wf(), old(self).is_mut(), %d + vals@.len() <= old(self).bytes().len(),' % MIN,
                'ensures final(self).is_mut(), final(self).bytes() =~= old(self).bytes().subrange(0, %d) + vals@ + old(self).bytes().subrange(%d + vals@.len() as int, old(self).bytes().len() as int),' % (MIN, MIN)])
        elif x == 'payload_tail':
            fn('payload', 'C04:body C12:post', ['requires self.wf(),', 'ensures r@ == self.bytes().subrange(%d, self.bytes().len() as int),' % MIN])
        elif x == 'payload_raw':
            fn('payload_raw', 'C04:body C14:post', ['requires self.wf(),', 'ensures r@ == self.bytes().subrange(%d, self.bytes().len() as int),' % MIN])
        elif x in SPECIAL:
            SPECIAL[x](v, fn, I, file, ip, path)
    emit(indent + '}')
    if v['name'] in AFTER_IMPL:
        AFTER_IMPL[v['name']](v, indent, file, path)


GETTER_EXTRA = {
    ('Ipv6Packet', 'traffic_class'): ['top <<< proof { let o0 = self.bytes()[0]; let o1 = self.bytes()[1]; assert((((o0 & 0xfu8) << 4u8) | ((o1 & 0xf0u8) >> 4u8)) as int == ((o0 & 0x0fu8) as int) * 16 + (((o1 & 0xf0u8) >> 4u8) as int)) by (bit_vector); } >>>'],
    ('MplsLabelStackMemberPacket', 'label'): ['top <<< proof { let o0 = self.bytes()[0]; let o1 = self.bytes()[1]; let o2 = self.bytes()[2]; let x: u32 = ((o0 as u32) * 65536 + (o1 as u32) * 256 + (o2 as u32)) as u32; assert(x >> 4u32 == (o0 as u32) * 4096 + (o1 as u32) * 16 + (((o2 & 0xf0u8) >> 4u8) as u32)) by (bit_vector) requires x == (o0 as u32) * 65536 + (o1 as u32) * 256 + (o2 as u32); } >>>'],
}
SETTER_EXTRA = {}

SPECIAL = {}
AFTER_IMPL = {}


def ipv4_special(v, fn, I, file, ip, path):
    emit(I + '/// RFC 791: options length = IHL*4 - 20 (0 when IHL < 5)')
    emit(I + 'pub open spec fn spec_options_length(b: Seq<u8>) -> int { if (b[0] & 0x0fu8) as int * 4 >= 20 { (b[0] & 0x0fu8) as int * 4 - 20 } else { 0 } }')
    fn('get_options_raw', 'C04:body C12:post', ['requires self.wf(),',
       'ensures r@ == self.bytes().subrange(20, (if 20 + Self::spec_options_length(self.bytes()) <= self.bytes().len() { 20 + Self::spec_options_length(self.bytes()) } else { self.bytes().len() as int })),'])
    fn('get_options_raw_mut', 'C04:body', ['requires old(self).wf(), old(self).is_mut(),'], ['rw "min(" => "usize_min("', 'rw "use std::cmp::min;" => ""'])
    fn('set_payload', 'C04:body C11:post', [
        'requires old(self).wf(), old(self).is_mut(), 20 + Self::spec_options_length(old(self).bytes()) + vals@.len() <= old(self).bytes().len(),',
        'ensures final(self).is_mut(), final(self).bytes() =~= ({ let s = 20 + Self::spec_options_length(old(self).bytes()); old(self).bytes().subrange(0, s) + vals@ + old(self).bytes().subrange(s + vals@.len() as int, old(self).bytes().len() as int) }),'])
    emit(I + 'pub open spec fn spec_payload(b: Seq<u8>) -> Seq<u8> { let s = 20 + Self::spec_options_length(b); if s <= b.len() { b.subrange(s, b.len() as int) } else { Seq::<u8>::empty() } }')
    fn('payload', 'C04:body C12:post', ['requires self.wf(),', 'ensures r@ == Self::spec_payload(self.bytes()),'])


def ipv4_after(v, indent, file, path):
    emit(indent + '//@prop C04:body C12:post')
    sig, it = real_sig(file, path + ['fn ipv4_options_length'])
    emit(indent + sig)
    emit(indent + '    requires ipv4.wf(),')
    emit(indent + '    ensures r == Ipv4Packet::spec_options_length(ipv4.bytes()),')
    emit(indent + '//@body %s :: fn ipv4_options_length' % file)
    emit(indent + '//@+ top <<< proof { let o = ipv4.bytes()[0]; assert(o & 0x0fu8 <= 15) by (bit_vector); } >>>')


SPECIAL['ipv4_special'] = ipv4_special
AFTER_IMPL['Ipv4Packet'] = ipv4_after


def ipv6_special(v, fn, I, file, ip, path):
    fn('set_payload', 'C04:body C11:post', [
        'requires old(self).wf(), old(self).is_mut(), 40 + vals@.len() <= old(self).bytes().len(),',
        '    vals@.len() <= old(self).bytes()[4] as int * 256 + old(self).bytes()[5] as int,   // debug_assert!(vals.len() <= payload_length) must hold',
        'ensures final(self).is_mut(), final(self).bytes() =~= old(self).bytes().subrange(0, 40) + vals@ + old(self).bytes().subrange(40 + vals@.len() as int, old(self).bytes().len() as int),'],
       ['rwre "debug_assert!\\(\\s*([^,]+),\\s*\\"[^\\"]*\\"\\s*\\);" => "if !(\\1) { panic!(); }"'])
    emit(I + 'pub open spec fn spec_payload(b: Seq<u8>) -> Seq<u8> { let pl = b[4] as int * 256 + b[5] as int; let e = if 40 + pl <= b.len() { 40 + pl } else { b.len() as int }; if b.len() <= 40 { Seq::<u8>::empty() } else { b.subrange(40, e) } }')
    fn('payload', 'C04:body C12:post', ['requires self.wf(),', 'ensures r@ == Self::spec_payload(self.bytes()),'])


SPECIAL['ipv6_special'] = ipv6_special


def tcp_special(v, fn, I, file, ip, path):
    emit(I + '/// RFC 9293: options length = data offset*4 - 20 (0 when data offset <= 5)')
    emit(I + 'pub open spec fn spec_options_length(b: Seq<u8>) -> int { let d = ((b[12] & 0xf0u8) >> 4u8) as int; if d > 5 { d * 4 - 20 } else { 0 } }')
    fn('tcp_options_length', 'C04:body C12:post', ['requires self.wf(),', 'ensures r == Self::spec_options_length(self.bytes()),'],
       ['top <<< proof { let o = self.bytes()[12]; assert((o & 0xf0u8) >> 4u8 <= 15) by (bit_vector); } >>>'])
    fn('get_options_raw', 'C04:body C12:post', ['requires self.wf(),',
       'ensures r@ == self.bytes().subrange(20, (if 20 + Self::spec_options_length(self.bytes()) <= self.bytes().len() { 20 + Self::spec_options_length(self.bytes()) } else { self.bytes().len() as int })),'])
    fn('set_payload', 'C04:body C11:post', [
        'requires old(self).wf(), old(self).is_mut(), 20 + Self::spec_options_length(old(self).bytes()) + vals@.len() <= old(self).bytes().len(),',
        'ensures final(self).is_mut(), final(self).bytes().len() == old(self).bytes().len(),'])
    fn('payload', 'C04:body C12:post', ['requires self.wf(),',
       'ensures r@ == ({ let s = 20 + Self::spec_options_length(self.bytes()); if self.bytes().len() <= s { Seq::<u8>::empty() } else { self.bytes().subrange(s, self.bytes().len() as int) } }),'])


SPECIAL['tcp_special'] = tcp_special


def icmp_ext(v, fn, I, file, ip, path):
    unit = v['len_unit']
    lo = [f for f in v['fields'] if f['name'] == 'length'][0]['off']
    X = 'crate::icmp_extension::extension_splitter::'
    emit(I + '/// RFC 4884: the length attribute counts %d-octet words' % unit)
    emit(I + 'pub open spec fn spec_rfc4884_length(b: Seq<u8>) -> int { b[%d] as int * %d }' % (lo, unit))
    emit(I + 'pub open spec fn spec_icmp_payload(b: Seq<u8>) -> Seq<u8> { b.subrange(8, b.len() as int) }')
    args = 'Self::spec_rfc4884_length(self.bytes()), Self::spec_icmp_payload(self.bytes())'
    fn('split_payload_extension', 'C04:body C14:post', ['requires self.wf(),',
       'ensures r.0@ == %sspec_split_payload(%s),   // [C14 %s-length-scaled-by-%d]' % (X, args, v['name'], unit),
       '    (r.1 is Some) == (%sspec_split_ext(%s) is Some),' % (X, args),
       '    r.1 is Some ==> r.1->Some_0@ == %sspec_split_ext(%s)->Some_0,' % (X, args)])
    fn('payload', 'C04:body C14:post', ['requires self.wf(),',
       'ensures r@ == %sspec_split_payload(%s),' % (X, args)])
    fn('extension', 'C04:body C14:post', ['requires self.wf(),',
       'ensures (r is Some) == (%sspec_split_ext(%s) is Some),' % (X, args),
       '    r is Some ==> r->Some_0@ == %sspec_split_ext(%s)->Some_0,' % (X, args)])


SPECIAL['icmp_ext'] = icmp_ext


def extensions_special(v, fn, I, file, ip, path):
    fn('header', 'C04:body C14:post', ['requires self.wf(),', 'ensures r@ == self.bytes().subrange(0, 4),'])
    fn('objects', 'C04:body C14:post', ['ensures r.offset == 4, r.buf.view() == self.bytes(),'])


def extensions_after(v, indent, file, path):
    I = indent
    emit(I + '//@item %s :: %s' % (file, ' :: '.join(path + ['struct ExtensionObjectIter'])))
    emit(I + "/// RFC 4884 object header: length (octets 0-1, big-endian) counts the whole object, header included")
    emit(I + 'pub open spec fn spec_obj_len(b: Seq<u8>, off: int) -> int { b[off] as int * 256 + b[off + 1] as int }')
    emit(I + '/// an object starts at `off` iff its 4-octet header fits and its declared length is >= 4 and fits')
    emit(I + 'pub open spec fn spec_obj_at(b: Seq<u8>, off: int) -> bool { off + 4 <= b.len() && 4 <= spec_obj_len(b, off) && off + spec_obj_len(b, off) <= b.len() }')
    emit(I + "impl<'a> ExtensionObjectIter<'a> {")
    sig, it = real_sig(file, path + ['impl ExtensionObjectIter', 'fn new'])
    emit(I + '    //@prop C04:body C14:post')
    emit(I + '    ' + sig)
    emit(I + '        ensures r.offset == 4, r.buf == buf,')
    emit(I + '    //@body %s :: %s' % (file, ' :: '.join(path + ['impl ExtensionObjectIter', 'fn new'])))
    emit(I + '    //@prop C04:body C14:post')
    emit(I + "    pub fn next(&mut self) -> (r: Option<&'a [u8]>)")
    emit(I + '        requires old(self).buf.view().len() <= usize::MAX,')
    emit(I + '        ensures final(self).buf == old(self).buf,')
    emit(I + '            (r is Some) == (old(self).offset <= old(self).buf.view().len() && spec_obj_at(old(self).buf.view(), old(self).offset as int)),   // [C14 object-yielded-iff-header-and-length-fit]')
    emit(I + '            r is None ==> final(self).offset == old(self).offset,')
    emit(I + '            r is Some ==> final(self).offset == old(self).offset + spec_obj_len(old(self).buf.view(), old(self).offset as int)   // [C14 iterator-advances-by-declared-length]')
    emit(I + '                && r->Some_0@ == old(self).buf.view().subrange(old(self).offset as int, old(self).buf.view().len() as int),')
    emit(I + '            // progress: every yielded object moves the offset forward by >= 4 and never past the end (termination measure len - offset)')
    emit(I + '            r is Some ==> final(self).offset >= old(self).offset + 4 && final(self).offset <= old(self).buf.view().len(),   // [C14 iterator-progress]')
    emit(I + '    //@body %s :: %s' % (file, ' :: '.join(path + ["impl Iterator for ExtensionObjectIter", 'fn next'])))
    emit(I + '    //@+ sig "fn next(&mut self)->Option<Self::Item>"')
    emit(I + '}')


SPECIAL['extensions_special'] = extensions_special
AFTER_IMPL['ExtensionsPacket'] = extensions_after


def extobj_special(v, fn, I, file, ip, path):
    L = 'self.bytes()[0] as int * 256 + self.bytes()[1] as int'
    fn('payload', 'C04:body C14:post', ['requires self.wf(),',
       'ensures r@ == ({ let l = %s; let e = if l <= self.bytes().len() { l } else { self.bytes().len() as int }; if e <= 4 { Seq::<u8>::empty() } else { self.bytes().subrange(4, e) } }),   // [C14 object-payload-is-declared-length-clamped]' % L])


SPECIAL['extobj_special'] = extobj_special


def mpls_special(v, fn, I, file, ip, path):
    fn('members', 'C04:body C14:post', ['ensures r.offset == 0, r.bos == 0, r.buf.view() == self.bytes(),'])


def mpls_after(v, indent, file, path):
    I = indent
    emit(I + '//@item %s :: %s' % (file, ' :: '.join(path + ['struct MplsLabelStackIter'])))
    emit(I + "impl<'a> MplsLabelStackIter<'a> {")
    sig, it = real_sig(file, path + ['impl MplsLabelStackIter', 'fn new'])
    emit(I + '    //@prop C04:body C14:post')
    emit(I + '    ' + sig)
    emit(I + '        ensures r.offset == 0, r.bos == 0, r.buf == buf,')
    emit(I + '    //@body %s :: %s' % (file, ' :: '.join(path + ['impl MplsLabelStackIter', 'fn new'])))
    emit(I + '    //@prop C04:body C14:post')
    emit(I + "    pub fn next(&mut self) -> (r: Option<&'a [u8]>)")
    emit(I + '        requires old(self).buf.view().len() <= usize::MAX,')
    emit(I + '        ensures final(self).buf == old(self).buf,')
    emit(I + '            (r is Some) == (old(self).bos == 0 && old(self).offset + 4 <= old(self).buf.view().len()),   // [C14 mpls-member-yielded-until-S-bit]')
    emit(I + '            r is None ==> final(self).offset == old(self).offset && final(self).bos == old(self).bos,')
    emit(I + '            r is Some ==> final(self).offset == old(self).offset + 4   // [C14 mpls-iterator-advances-4]')
    emit(I + '                && final(self).bos == old(self).buf.view()[old(self).offset + 2] & 0x01u8   // RFC 3032: S bit = lsb of octet 2')
    emit(I + '                && r->Some_0@ == old(self).buf.view().subrange(old(self).offset as int, old(self).buf.view().len() as int),')
    emit(I + '    //@body %s :: %s' % (file, ' :: '.join(path + ["impl Iterator for MplsLabelStackIter", 'fn next'])))
    emit(I + '    //@+ sig "fn next(&mut self)->Option<Self::Item>"')
    emit(I + '}')


SPECIAL['mpls_special'] = mpls_special
AFTER_IMPL['MplsLabelStackPacket'] = mpls_after

SPLITTER = r"""
pub mod extension_splitter {
    use vstd::prelude::*;
    use crate::icmp_extension::extension_header::ExtensionHeaderPacket;
    //@item FILE :: mod extension_splitter :: const MIN_HEADER :: exec_const(4)
    //@item FILE :: mod extension_splitter :: const ICMP_ORIG_DATAGRAM_MIN_LENGTH

    // ---- oracle, written from RFC 4884 (sections 4, 5.1-5.5) and the property statement ----
    /// Is an extension structure present?  Either at the offset given by a compliant length attribute
    /// (> 128: directly after `length` octets; 1..=128: original datagram zero padded to 128 octets), or,
    /// for legacy (length attribute 0) senders, after exactly 128 octets.  An extension needs >= 4 octets.
    pub open spec fn spec_ext_start(length: int, p: Seq<u8>) -> Option<int> {
        if length > p.len() { None }
        else if p.len() > 128 {
            let start = if length > 128 { length } else { 128 };
            if p.len() - start >= 4 { Some(start) } else { None }
        } else { None }
    }
    /// the quoted original datagram
    pub open spec fn spec_split_payload(length: int, p: Seq<u8>) -> Seq<u8> {
        match spec_ext_start(length, p) {
            None => p,
            Some(start) => if length > 0 { p.subrange(0, length) } else { p.subrange(0, 128) },
        }
    }
    pub open spec fn spec_split_ext(length: int, p: Seq<u8>) -> Option<Seq<u8>> {
        match spec_ext_start(length, p) { None => None, Some(start) => Some(p.subrange(start, p.len() as int)) }
    }
    /// C14: datagram and extension are disjoint sub-ranges of the received message
    //@prop C14
    pub proof fn lemma_split_disjoint_in_bounds(length: int, p: Seq<u8>)
        requires 0 <= length
        ensures spec_split_payload(length, p).len() <= p.len(),
            spec_ext_start(length, p) is Some ==> spec_split_payload(length, p).len() <= spec_ext_start(length, p)->Some_0
                && spec_ext_start(length, p)->Some_0 + spec_split_ext(length, p)->Some_0.len() == p.len(),
    {}
    /// C14: an RFC 4884 compliant message (datagram of `length` >= 128 octets followed by an extension of >= 4 octets) is recovered unchanged
    //@prop C14
    pub proof fn lemma_split_compliant(datagram: Seq<u8>, ext: Seq<u8>)
        requires datagram.len() >= 128, ext.len() >= 4
        ensures spec_split_payload(datagram.len() as int, datagram + ext) =~= datagram,
            spec_split_ext(datagram.len() as int, datagram + ext) is Some,
            spec_split_ext(datagram.len() as int, datagram + ext)->Some_0 =~= ext,
    {}
    /// C14: legacy 128-octet convention (length attribute zero)
    //@prop C14
    pub proof fn lemma_split_legacy(datagram: Seq<u8>, ext: Seq<u8>)
        requires datagram.len() == 128, ext.len() >= 4
        ensures spec_split_payload(0, datagram + ext) =~= datagram,
            spec_split_ext(0, datagram + ext) is Some,
            spec_split_ext(0, datagram + ext)->Some_0 =~= ext,
    {}

    //@prop C04:body C14:post
    pub fn split(length: usize, icmp_payload: &[u8]) -> (r: (&[u8], Option<&[u8]>))
        ensures r.0@ == spec_split_payload(length as int, icmp_payload@),   // [C14 split-datagram]
            (r.1 is Some) == (spec_split_ext(length as int, icmp_payload@) is Some),   // [C14 split-extension-present]
            r.1 is Some ==> r.1->Some_0@ == spec_split_ext(length as int, icmp_payload@)->Some_0,   // [C14 split-extension-bytes]
    //@body FILE :: mod extension_splitter :: fn split
}
"""


def icmp_family(fam, views):
    file = views[0]['file']
    emit('pub mod %s {' % fam)
    emit('    use vstd::prelude::*; use crate::buffer::Buffer; use crate::error::{Error, Result}; use crate::*;')
    enum_block('IcmpType@' + fam, '    ')
    newt_block(file, [], 'IcmpCode', '    ')
    for v in views:
        if v['mod']:
            emit('    pub mod %s {' % v['mod'][0])
            emit('        use vstd::prelude::*; use crate::buffer::Buffer; use crate::error::{Error, Result}; use crate::*;')
            emit('        use crate::%s::{IcmpCode, IcmpType, spec_IcmpType_id, spec_IcmpType_from}; use crate::icmp_extension::extension_splitter::split;' % fam)
            view_block(v, '        ')
            emit('    }')
        else:
            view_block(v, '    ')
    emit('}')


def main():
    emit(PRELUDE)
    mods = {}
    for v in VIEWS:
        mods.setdefault(v['crate_mod'].split('::')[0], []).append(v)
    for top in ['ipv4', 'ipv6', 'udp', 'tcp']:
        emit('pub mod %s {' % top)
        emit('    use vstd::prelude::*; use crate::buffer::Buffer; use crate::error::{Error, Result}; use crate::*; use std::net::{Ipv4Addr, Ipv6Addr};')
        for v in mods[top]:
            view_block(v, '    ')
        emit('}')
    icmp_family('icmpv4', mods['icmpv4'])
    icmp_family('icmpv6', mods['icmpv6'])
    emit('pub mod icmp_extension {')
    emit('    use vstd::prelude::*;')
    for v in mods['icmp_extension']:
        emit('    pub mod %s {' % v['mod'][0])
        emit('        use vstd::prelude::*; use crate::buffer::Buffer; use crate::error::{Error, Result}; use crate::*;')
        if v['name'] == 'ExtensionsPacket':
            emit('        use crate::icmp_extension::extension_object::ExtensionObjectPacket;')
        if v['name'] == 'MplsLabelStackPacket':
            emit('        use crate::icmp_extension::mpls_label_stack_member::MplsLabelStackMemberPacket;')
        if v['name'] == 'ExtensionObjectPacket':
            enum_block('ClassNum', '        ')
            newt_block(v['file'], v['mod'], 'ClassSubType', '        ')
        view_block(v, '        ')
        emit('    }')
    for ln in SPLITTER.replace('FILE', P + 'icmp_extension.rs').split('\n'):
        emit('    ' + ln if ln.strip() else ln)
    emit('}')
    emit('} // verus!')
    emit('fn main() {}')
    print('\n'.join(x for x in out if x is not None))


if __name__ == '__main__':
    main()
