"""Engine A ("vx"): template-driven extraction of real function bodies from
/repo into a single Verus file, verification, and classification of the result.

Template directives (all start with `//@`):

  //@prop C12 C04              properties served by the next fn item (exec, proof or spec-with-proof)
  //@body <file> :: <path>     replaced by the *real* body of the fn at <path>;
                               the template fn signature just above it must
                               equal the real one (else: lost anchor)
  //@+ rw "<from>" => "<to>"   function-local literal rewrite (logged as T6)
  //@+ rwre "<regex>" => "<to>" function-local regex rewrite (logged as T6)
  //@+ inv <n> <<< ... >>>     text spliced between the header of the n-th loop
                               of the body and its `{` (T7)
  //@+ before "<anchor>" <<< ... >>>   ghost text spliced before the first
  //@+ after "<anchor>" <<< ... >>>    / after the statement containing anchor (T7)
  //@+ sig "<normalised real signature>"   accept this real signature although the
                               template one differs (T5)
  //@item <file> :: <path> [:: derive(A, B)]   paste a struct/enum/const item (T1, T3)
  //@include <relative template file>          textual include of another template

Clause labels: a trailing `// [Cxx label]` comment on a requires/ensures line
attributes a failure of that clause to property Cxx under that label.
"""
import hashlib
import json
import os
import re
import subprocess
import sys
import time

sys.path.insert(0, os.path.dirname(os.path.abspath(__file__)))
import rsrc  # noqa: E402
from rsrc import LostAnchor  # noqa: E402

VERIF = os.path.dirname(os.path.dirname(os.path.abspath(__file__)))
REPO = os.environ.get('VERIF_REPO', '/repo')
BUILD = os.environ.get('VERIF_BUILD_DIR', os.path.join(VERIF, 'build'))


class ToolLimit(Exception):
    """anything that leaves the property undecided (exit 2)"""


# ---------------------------------------------------------------------------
# global rewrite catalogue (T2, T4, T8) applied to every pasted body.
# (tag, description, regex, replacement)
GLOBAL_REWRITES = [
    ('T4', 'u16::from_be_bytes -> shim', re.compile(r'\bu16::from_be_bytes\('), 'u16_from_be_bytes('),
    ('T4', 'u32::from_be_bytes -> shim', re.compile(r'\bu32::from_be_bytes\('), 'u32_from_be_bytes('),
    ('T4', 'u128::from_be_bytes -> shim', re.compile(r'\bu128::from_be_bytes\('), 'u128_from_be_bytes('),
    ('T4', 'std::cmp::min -> shim', re.compile(r'\bstd::cmp::min\('), 'usize_min('),
    ('T4', 'SystemTime::now -> shim', re.compile(r'\bSystemTime::now\(\)'), 'system_time_now()'),
    ('T8', 'bool |= -> ||', re.compile(r'(\bself\.[\w\.]+)\s*\|=\s*([^;]+);'), r'\1 = \1 || \2;'),
]


def strip_macro_stmts(body, names, log):
    """T2: remove `name!(...);` statements (paren matched)."""
    clean = rsrc.blank(body)
    out = []
    i = 0
    pat = re.compile(r'\b(' + '|'.join(re.escape(n) for n in names) + r')!\s*\(')
    while True:
        m = pat.search(clean, i)
        if not m:
            out.append(body[i:])
            break
        j = rsrc.match_close(clean, m.end() - 1) + 1
        k = j
        while k < len(clean) and clean[k] in ' \t':
            k += 1
        if k < len(clean) and clean[k] == ';':
            k += 1
        out.append(body[i:m.start()])
        log.append(('T2', 'dropped statement: ' + re.sub(r'\s+', ' ', body[m.start():k])[:120]))
        i = k
    return ''.join(out)


def find_stmt_bounds(body, clean, pos):
    """return (start, end) of the statement containing index pos (brace-depth
    aware; statement = text between ';' / '{' / '}' boundaries at that depth)."""
    # walk backwards to previous ';' or '{' or '}' at same depth
    depth = 0
    i = pos
    while i > 0:
        ch = clean[i - 1]
        if ch == '}' and depth == 0:
            rest = clean[i:pos].strip()
            if rest == '' or (re.match(r'[A-Za-z_!*&(\[]', rest) and not rest.startswith('else')):
                break
        if ch in ')]}':
            depth += 1
        elif ch in '([{':
            if depth == 0:
                break
            depth -= 1
        elif ch == ';' and depth == 0:
            break
        i -= 1
    start = i
    depth = 0
    j = pos
    n = len(clean)
    while j < n:
        ch = clean[j]
        if ch in '([{':
            depth += 1
        elif ch in ')]}':
            if depth == 0:
                break
            depth -= 1
            if depth == 0 and ch == '}':
                # block statement (if/while/match ...) ends here unless followed by else / ; / .
                k = j + 1
                while k < n and clean[k].isspace():
                    k += 1
                if clean.startswith('else', k):
                    j = k
                    continue
                if k < n and clean[k] in ';.?':
                    j = k
                    continue
                j += 1
                break
        elif ch == ';' and depth == 0:
            j += 1
            break
        j += 1
    return start, j


LOOP_RE = re.compile(r'\b(while|for|loop)\b')


def loop_headers(clean):
    """positions (index of the loop body's '{') of loops in textual order"""
    res = []
    for m in LOOP_RE.finditer(clean):
        # skip `for` in `impl X for Y` / HRTB (not in bodies normally)
        j = m.end()
        depth = 0
        while j < len(clean):
            ch = clean[j]
            if ch in '([':
                depth += 1
            elif ch in ')]':
                depth -= 1
            elif ch == '{' and depth == 0:
                break
            elif ch == ';' and depth == 0:
                j = -1
                break
            j += 1
        if j > 0 and j < len(clean):
            res.append((m.start(), j))
    return res


class Fn:
    """a function of the generated file that carries obligations"""

    def __init__(self):
        self.name = None
        self.qual = None          # e.g. Ipv4Packet::get_version
        self.props = []
        self.source = None        # file :: path (pasted) or None (ghost)
        self.sha256 = None
        self.rewrites = []        # list of (tag, text)
        self.line_lo = self.line_hi = None
        self.kind = 'exec'
        self.has_requires = False
        self.canary_line = None
        self.clause_labels = {}   # line -> [(prop, label), ...]
        self.ghost_lost = []      # ghost splice anchors that vanished from the real body


class Unit:
    def __init__(self, name):
        self.name = name
        self.tpl = os.path.join(VERIF, 'specs', name + '.vtpl')
        self.text = None
        self.fns = []
        self.items = []
        self.trusted = []
        self.out = os.path.join(BUILD, name + '.rs')
        self.difflines = []


DIRECTIVE_RE = re.compile(r'^[ \t]*//@(body|item|include)\b[ \t]*(.*)$', re.M)


def to_import(text):
    """turn a template into an *import*: every pasted function becomes an `external_body` declaration that keeps
    its signature and contract (so a client unit is verified against the contracts proved in the other unit, never
    against the bodies); //@prop tags are dropped (the obligations belong to the exporting unit)."""
    lines = text.split('\n')
    out = []
    i = 0
    while i < len(lines):
        s_ = lines[i].strip()
        if s_.startswith('//@prop'):
            i += 1
            continue
        if s_.startswith('//@body'):
            spec = [p.strip() for p in s_[len('//@body'):].split('::')]
            fn_name = spec[-1].split()[-1]
            if fn_name == 'minimum_packet_size':
                # const-evaluated by rustc in `const` initialisers of client code: keep the real one-line body
                out.append(lines[i])
                i += 1
                continue
            sofar = '\n'.join(out)
            pos, _hdr = template_sig_before(sofar, fn_name)
            # start of the line holding the signature
            ls = sofar.rfind('\n', 0, pos) + 1
            sofar = sofar[:ls] + '#[verifier::external_body]\n' + sofar[ls:]
            out = sofar.split('\n')
            out.append('{ unimplemented!() }')
            i += 1
            while i < len(lines) and lines[i].strip().startswith('//@+'):
                if '<<<' in lines[i] and '>>>' not in lines[i]:
                    i += 1
                    while i < len(lines) and '>>>' not in lines[i]:
                        i += 1
                i += 1
            continue
        out.append(lines[i])
        i += 1
    return '\n'.join(out)


def strip_file_wrapper(text):
    """keep what is between `verus! {` and `} // verus!`"""
    a = text.index('verus! {') + len('verus! {')
    b = text.rindex('} // verus!')
    return text[a:b]


def run_generator(gen):
    env = dict(os.environ, VERIF_REPO=REPO)
    p = subprocess.run([sys.executable, gen], stdout=subprocess.PIPE, stderr=subprocess.PIPE, text=True, env=env)
    if p.returncode != 0:
        if 'LostAnchor' in p.stderr:
            raise LostAnchor('template generator %s: %s' % (os.path.basename(gen), p.stderr.strip().split('\n')[-1]))
        raise ToolLimit('template generator %s failed: %s' % (os.path.basename(gen), p.stderr[-800:]))
    return p.stdout


def load_template(path, seen=None, text=None):
    """textual expansion of //@include (once per generated file) and //@import directives"""
    seen = seen if seen is not None else set()
    t = text if text is not None else open(path).read()
    base = os.path.dirname(path)

    def inc(m):
        p = os.path.normpath(os.path.join(base, m.group(1).strip()))
        if p in seen:
            return '// (already included: %s)' % os.path.basename(p)
        seen.add(p)
        return load_template(p, seen)

    def imp(m):
        p = os.path.normpath(os.path.join(base, m.group(1).strip()))
        gen = p + '.py'
        raw = run_generator(gen) if os.path.exists(gen) else open(p).read()
        body = strip_file_wrapper(raw)
        body = load_template(p, seen, body)      # resolves its includes against the shared `seen` set
        return ('// ===== imported contracts of %s (bodies NOT re-verified here) =====\n' % os.path.basename(p) + to_import(body)
                + '\n// ===== end of imported contracts of %s =====\n' % os.path.basename(p))

    t = re.sub(r'^[ \t]*//@include[ \t]+(\S+)[ \t]*$', inc, t, flags=re.M)
    t = re.sub(r'^[ \t]*//@import[ \t]+(\S+)[ \t]*$', imp, t, flags=re.M)
    return t


def parse_opts(lines):
    """parse the `//@+` option lines following a //@body directive"""
    opts = []
    i = 0
    while i < len(lines):
        ln = lines[i].strip()
        assert ln.startswith('//@+')
        s = ln[4:].strip()
        if '<<<' in s and '>>>' not in s:
            acc = [s]
            i += 1
            while i < len(lines):
                s2 = lines[i].strip()
                s2 = s2[4:] if s2.startswith('//@+') else s2
                acc.append(s2)
                if '>>>' in s2:
                    break
                i += 1
            s = '\n'.join(acc)
        opts.append(s)
        i += 1
    res = []
    for s in opts:
        m = re.match(r'(rw\??|rwre\??)\s+"((?:[^"\\]|\\.)*)"\s*=>\s*"((?:[^"\\]|\\.)*)"\s*$', s, re.S)
        if m:
            kind = m.group(1)
            lit = kind.startswith('rw') and not kind.startswith('rwre')
            un = lambda x: x.replace('\\"', '"').replace('\\\\', '\\') if lit else x.replace('\\"', '"')
            res.append((kind, un(m.group(2)), un(m.group(3)) if lit else m.group(3).replace('\\"', '"')))
            continue
        m = re.match(r'havoc\s+"((?:[^"\\]|\\.)*)"\s*=>\s*"((?:[^"\\]|\\.)*)"\s*$', s, re.S)
        if m:
            res.append(('havoc', m.group(1).replace('\\"', '"'), m.group(2).replace('\\"', '"')))
            continue
        m = re.match(r'inv\s+(\d+)\s*<<<(.*)>>>\s*$', s, re.S)
        if m:
            res.append(('inv', int(m.group(1)), m.group(2)))
            continue
        m = re.match(r'top\s*<<<(.*)>>>\s*$', s, re.S)
        if m:
            res.append(('top', m.group(1)))
            continue
        m = re.match(r'bottom\s*<<<(.*)>>>\s*$', s, re.S)
        if m:
            res.append(('bottom', m.group(1)))
            continue
        m = re.match(r'destructure\s*<<<(.*)>>>\s*$', s, re.S)
        if m:
            res.append(('destructure', m.group(1)))
            continue
        m = re.match(r'loopbody\s+(\d+)\s*<<<(.*)>>>\s*$', s, re.S)
        if m:
            res.append(('loopbody', int(m.group(1)), m.group(2)))
            continue
        m = re.match(r'(before|after)\s+"((?:[^"\\]|\\.)*)"\s*<<<(.*)>>>\s*$', s, re.S)
        if m:
            res.append((m.group(1), m.group(2).replace('\\"', '"'), m.group(3)))
            continue
        m = re.match(r'sig\s+"(.*)"\s*$', s)
        if m:
            res.append(('sig', m.group(1)))
            continue
        raise ToolLimit('bad //@+ option: ' + s[:80])
    return res


_src_cache = {}


def source(relpath):
    p = os.path.join(REPO, relpath)
    if p not in _src_cache:
        if not os.path.exists(p):
            raise LostAnchor('file not found: ' + relpath)
        _src_cache[p] = rsrc.Source(p)
    return _src_cache[p]


def transform_body(body, opts, log, lost):
    body = strip_macro_stmts(body, ['tracing::trace', 'tracing::debug', 'tracing::info', 'tracing::warn', 'tracing::error'], log)
    for tag, desc, rx, rep in GLOBAL_REWRITES:
        body, n = rx.subn(rep, body)
        if n:
            log.append((tag, '%s (x%d)' % (desc, n)))
    for o in opts:
        if o[0] in ('rw', 'rw?'):
            if o[1] not in body:
                if o[0] == 'rw?':
                    continue
                raise LostAnchor('rewrite anchor not found: %r' % o[1][:60])
            n = body.count(o[1])
            body = body.replace(o[1], o[2])
            log.append(('T6', 'rewrite (x%d): %s  =>  %s' % (n, o[1], o[2])))
        elif o[0] in ('rwre', 'rwre?'):
            body, n = re.subn(o[1], o[2], body)
            body = body.replace('duration_cmp_>=(', 'duration_cmp_ge(').replace('duration_cmp_<=(', 'duration_cmp_le(').replace('duration_cmp_>(', 'duration_cmp_gt(').replace('duration_cmp_<(', 'duration_cmp_lt(')
            if not n:
                if o[0] == 'rwre?':
                    continue
                raise LostAnchor('rewrite regex not found: %r' % o[1][:60])
            log.append(('T6', 'regex rewrite (x%d): %s  =>  %s' % (n, o[1], o[2])))
    for o in opts:
        if o[0] == 'havoc':
            # T6 statement abstraction: every statement whose text starts with the regex is replaced by
            # `<lhs> = <shim>;` -- the shim returns an arbitrary value of the right type, so the result
            # over-approximates the replaced statement (frame = exactly its left-hand side)
            cl = rsrc.blank(body)
            pat = re.compile(r'(?m)^[ \t]*(' + o[1] + r')')
            outb, pos, cnt = [], 0, 0
            for m in pat.finditer(cl):
                if m.start(1) < pos:
                    continue
                a, b = find_stmt_bounds(body, cl, m.start(1))
                stmt = body[a:b]
                eq = re.search(r'(\+|-|\*|/)?=(?!=)', rsrc.blank(stmt))
                if not eq:
                    continue
                lhs = stmt[:eq.start()].rstrip()
                outb.append(body[pos:a])
                outb.append(lhs + ' = ' + o[2] + ';')
                log.append(('T6', 'statement abstracted to `%s = %s`: %s' % (lhs.strip(), o[2], re.sub(r'\s+', ' ', stmt.strip())[:160])))
                pos = b
                cnt += 1
            outb.append(body[pos:])
            body = ''.join(outb)
            if cnt == 0:
                raise LostAnchor('havoc pattern matched no statement: %r' % o[1][:60])
    # splices, performed right-to-left so positions stay valid.  A ghost anchor
    # that no longer exists is NOT fatal: the text is skipped and recorded in
    # `lost` (the function is then verified without that hint).
    splices = []
    clean = rsrc.blank(body)
    loops = None
    for o in opts:
        if o[0] in ('inv', 'loopbody'):
            if loops is None:
                loops = loop_headers(clean)
            if o[1] < 1 or o[1] > len(loops):
                lost.append('loop #%d not found (body has %d loops)' % (o[1], len(loops)))
                continue
            brace = loops[o[1] - 1][1]
            if o[0] == 'inv':
                splices.append((brace, '\n' + o[2].strip('\n') + '\n'))
                log.append(('T7', 'loop #%d: invariant/decreases spliced' % o[1]))
            else:
                splices.append((brace + 1, '\n' + o[2].strip('\n') + '\n'))
                log.append(('T7', 'loop #%d: ghost text spliced at start of loop body' % o[1]))
        elif o[0] == 'top':
            splices.append((body.index('{') + 1, '\n' + o[1].strip('\n') + '\n'))
            log.append(('T7', 'ghost text spliced at start of body'))
        elif o[0] == 'bottom':
            # before the trailing expression of the body, or before its closing brace
            end = len(clean.rstrip()) - 1          # index of the closing '}'
            k = end - 1
            depth = 0
            pos = None
            while k > 0:
                ch = clean[k]
                if ch in ')]}':
                    if ch == '}' and depth == 0:
                        pos = k + 1
                        break
                    depth += 1
                elif ch in '([{':
                    depth -= 1
                elif ch == ';' and depth == 0:
                    pos = k + 1
                    break
                k -= 1
            if pos is None:
                pos = body.index('{') + 1
            splices.append((pos, '\n' + o[1].strip('\n') + '\n'))
            log.append(('T7', 'ghost text spliced before the end of the body'))
        elif o[0] == 'destructure':
            splices.append((body.index('{') + 1, '\n' + o[1].strip('\n') + '\n'))
            log.append(('T5', 'tuple-pattern parameter moved into the body: ' + o[1].strip()))
        elif o[0] in ('before', 'after'):
            pos = body.find(o[1])
            if pos < 0:
                lost.append('splice anchor not found: %r' % o[1][:60])
                continue
            a, b = find_stmt_bounds(body, clean, pos)
            splices.append((a if o[0] == 'before' else b, '\n' + o[2].strip('\n') + '\n'))
            log.append(('T7', 'ghost text spliced %s statement %r' % (o[0], o[1][:50])))
    for pos, text in sorted(splices, key=lambda x: -x[0]):
        body = body[:pos] + text + body[pos:]
    return body


def transform_item(text, derive, log):
    """T1/T3 on a pasted type/const item"""
    clean = rsrc.blank(text)
    # drop doc comments & attributes
    out = []
    i = 0
    while i < len(text):
        m = rsrc.ATTR_RE.match(clean, i)
        if m:
            j = rsrc.match_close(clean, m.end() - 1) + 1
            log.append(('T1', 'dropped attribute ' + re.sub(r'\s+', ' ', text[i:j])[:80]))
            i = j
            continue
        out.append(text[i] if (clean[i] == text[i] or text[i] in '"\'' or not text[i:i + 2] in ('//', '/*')) else text[i])
        i += 1
    t = ''.join(out)
    # remove comments
    c2 = rsrc.blank(t)
    t = ''.join(ch if (c2[k] == ch or ch == '\n') else (ch if c2[k] != ' ' else ' ') for k, ch in enumerate(t))
    t = re.sub(r'[ \t]+\n', '\n', t)
    t = re.sub(r'\n\s*\n+', '\n', t)
    # T3: fields pub
    if re.match(r'\s*(pub(\([^)]*\))?\s+)?struct\b', t):
        c3 = rsrc.blank(t)
        b = c3.find('{')
        if b >= 0:
            e = rsrc.match_close(c3, b)
            inner = t[b + 1:e]

            def pubify(m):
                return m.group(1) + 'pub ' + m.group(3)
            inner2 = re.sub(r'(^|,\s*|\n\s*)(pub(?:\([^)]*\))?\s+)?([a-z_]\w*\s*:)', pubify, inner)
            if inner2 != inner:
                log.append(('T3', 'struct fields made pub'))
            t = t[:b + 1] + inner2 + t[e:]
        else:
            # tuple struct
            b = c3.find('(')
            if b >= 0:
                e = rsrc.match_close(c3, b)
                inner = t[b + 1:e]
                parts = [p.strip() for p in inner.split(',') if p.strip()]
                parts = [p if p.startswith('pub') else 'pub ' + p for p in parts]
                t = t[:b + 1] + ', '.join(parts) + t[e:]
                log.append(('T3', 'tuple struct fields made pub'))
    t = re.sub(r'^\s*pub\([^)]*\)\s+', 'pub ', t)
    if re.match(r'\s*(struct|enum)\b', t):
        t = 'pub ' + t.lstrip()
        log.append(('T3', 'item made pub'))
    if derive:
        t = '#[derive(%s)]\n' % derive + t.lstrip()
    return t.strip() + '\n'


def _split_params(sig):
    """(prefix, [params], suffix) of a normalised fn signature"""
    k0 = sig.index('(')
    k1 = rsrc.match_close(sig, k0)
    inner = sig[k0 + 1:k1]
    ps, d, cur = [], 0, ''
    for ch in inner:
        if ch in '([{<':
            d += 1
        elif ch in ')]}>':
            d -= 1
        if ch == ',' and d == 0:
            ps.append(cur.strip())
            cur = ''
        else:
            cur += ch
    if cur.strip():
        ps.append(cur.strip())
    return sig[:k0], ps, sig[k1 + 1:]


def param_reorder(real_sig, tpl_sig):
    """if the two signatures differ only in the order of their (name: type) parameters, the real order; else None"""
    try:
        rp, rps, rs = _split_params(real_sig)
        tp, tps, ts = _split_params(tpl_sig)
    except (ValueError, IndexError):
        return None
    if rp != tp or rs != ts or rps == tps or len(set(rps)) != len(rps):
        return None
    if sorted(rps) == sorted(tps):
        return rps
    # same parameter names in the same order, differing only in the WIDTH of primitive integer types: the contract is
    # written over mathematical integers (`x as int`), so the real declaration is adopted and re-verified
    def split(p):
        n, _, t = p.partition(':')
        return n.strip(), t.strip()
    ints = INT_TYPES
    if len(rps) == len(tps) and all(split(a)[0] == split(b)[0] and (split(a)[1] == split(b)[1] or (split(a)[1] in ints and split(b)[1] in ints)) for a, b in zip(rps, tps)):
        return rps
    return None


def template_sig_before(out_text, fn_name):
    """find the template's fn header for fn_name at the end of out_text"""
    ms = list(re.finditer(r'^[ \t]*((?:pub(?:\([^)]*\))?\s+)?(?:const\s+)?fn\s+' + re.escape(fn_name) + r'\b)', out_text, re.M))
    if not ms:
        raise ToolLimit('template: no fn header for ' + fn_name)
    m = ms[-1]
    rest = out_text[m.start(1):]
    # header ends at first contract keyword at line start or end of text
    k = re.search(r'(?:^|\s)(requires|ensures|decreases|recommends|returns|no_unwind|opens_invariants)\b', rest)
    hdr = rest[:k.start()] if k else rest
    return m.start(1), hdr


def expand(unit):
    log_items = []
    gen = unit.tpl + '.py'
    if os.path.exists(gen):
        raw = run_generator(gen)
        os.makedirs(BUILD, exist_ok=True)
        gp = os.path.join(BUILD, unit.name + '.vtpl')
        open(gp, 'w').write(raw)
        t = load_template(unit.tpl, None, raw)
    else:
        t = load_template(unit.tpl)
    lines = t.split('\n')
    out = []
    pending_props = None
    i = 0
    fns = []
    while i < len(lines):
        ln = lines[i]
        s = ln.strip()
        if s.startswith('//@prop'):
            pending_props = s[len('//@prop'):].split()
            # remember position: applies to next fn
            out.append('//@@prop ' + ' '.join(pending_props))
            i += 1
            continue
        if s.startswith('//@item'):
            spec = [p.strip() for p in re.split(r'\s::\s', s[len('//@item'):])]
            derive = None
            exec_const = None
            if spec and spec[-1].startswith('derive('):
                derive = spec.pop()[len('derive('):-1]
            if spec and spec[-1].startswith('exec_const('):
                exec_const = spec.pop()[len('exec_const('):-1]
            subs = []
            while spec and spec[-1].startswith('sub('):
                a_, b_ = spec.pop()[len('sub('):-1].split('=>')
                subs.append((a_.strip(), b_.strip()))
            if spec and spec[-1].startswith('derive(') and derive is None:
                derive = spec.pop()[len('derive('):-1]
            file, path = spec[0], spec[1:]
            it = source(file).find(path)
            log = []
            txt = transform_item(it.text(), derive, log)
            for a_, b_ in subs:
                if a_ not in txt:
                    raise LostAnchor('type substitution anchor %r not found in %s' % (a_, ' :: '.join(path)))
                txt = txt.replace(a_, b_)
                log.append(('T3', 'type substituted by an opaque model: %s => %s' % (a_, b_)))
            if exec_const is not None:
                mm = re.match(r'\s*(pub\s+)?const\s+(\w+)\s*:\s*([^=]+?)\s*=\s*(.*);\s*$', txt, re.S)
                if not mm:
                    raise LostAnchor('exec_const: %s is not a simple const' % ' :: '.join(path))
                txt = '%sexec const %s: %s ensures %s == %s { %s }\n' % (mm.group(1) or '', mm.group(2), mm.group(3), mm.group(2), exec_const, mm.group(4))
                log.append(('T7', 'const given an `ensures` (value %s proved by Verus from the initialiser)' % exec_const))
            out.append('// --- pasted item %s :: %s  [%s]' % (file, ' :: '.join(path), '; '.join(sorted(set(x[0] for x in log)))))
            out.append(txt.rstrip('\n'))
            unit.items.append({'source': file + ' :: ' + ' :: '.join(path), 'sha256': hashlib.sha256(it.text().encode()).hexdigest(), 'rewrites': ['%s %s' % x for x in log]})
            i += 1
            continue
        if s.startswith('//@decl'):
            spec = [p.strip() for p in s[len('//@decl'):].split('::')]
            file, path = spec[0], spec[1:]
            it = source(file).find(path)
            sofar = '\n'.join(out)
            pos, thdr = template_sig_before(sofar, it.name)
            real_sig = rsrc.fn_signature_norm(rsrc.blank(it.header())).rstrip(';')
            tpl_sig = rsrc.fn_signature_norm(rsrc.blank(thdr), True).rstrip(';')
            if real_sig != tpl_sig:
                raise LostAnchor('declaration changed for %s :: %s\n   real:     %s\n   template: %s' % (file, ' :: '.join(path), real_sig, tpl_sig))
            unit.items.append({'source': file + ' :: ' + ' :: '.join(path), 'sha256': hashlib.sha256(it.text().encode()).hexdigest(), 'rewrites': ['T7 contract spliced onto a body-less declaration (signature checked)']})
            i += 1
            continue
        if s.startswith('//@body'):
            spec = [p.strip() for p in s[len('//@body'):].split('::')]
            file, path = spec[0], spec[1:]
            optlines = []
            i += 1
            while i < len(lines) and lines[i].strip().startswith('//@+'):
                optlines.append(lines[i])
                # multi-line <<< >>> blocks
                if '<<<' in lines[i] and '>>>' not in lines[i]:
                    i += 1
                    while i < len(lines):
                        optlines.append('//@+' + lines[i] if not lines[i].strip().startswith('//@+') else lines[i])
                        if '>>>' in lines[i]:
                            break
                        i += 1
                i += 1
            opts = parse_opts(optlines)
            it = source(file).find(path)
            if it.kind != 'fn':
                raise LostAnchor('%s :: %s is not a fn' % (file, ' :: '.join(path)))
            fn_name = it.name
            sofar = '\n'.join(out)
            pos, thdr = template_sig_before(sofar, fn_name)
            real_sig = rsrc.fn_signature_norm(rsrc.blank(it.header()))
            tpl_sig = rsrc.fn_signature_norm(rsrc.blank(thdr), True)
            log = []
            sig_over = [o for o in opts if o[0] == 'sig']
            reorder = None
            if real_sig != tpl_sig:
                reorder = param_reorder(real_sig, tpl_sig)
            if reorder:
                # same parameters (name: type) in another order: the contract is written over the names, so the
                # template adopts the real order; call sites (positional) are then checked against it
                k0 = thdr.index('(', re.search(r'\bfn\s+' + re.escape(fn_name), thdr).end())
                k1 = rsrc.match_close(rsrc.blank(thdr), k0)
                new_hdr = thdr[:k0 + 1] + ', '.join(reorder) + thdr[k1:]
                sofar = sofar[:pos] + new_hdr + sofar[pos + len(thdr):]
                out[:] = sofar.split('\n')
                log.append(('T5', 'parameter order follows the real declaration: (%s)' % ', '.join(reorder)))
            elif real_sig != tpl_sig:
                if sig_over and rsrc.norm_ws(sig_over[0][1]) == real_sig:
                    log.append(('T5', 'signature differs by declared rewrite: real `%s` / template `%s`' % (real_sig, tpl_sig)))
                else:
                    raise LostAnchor('signature changed for %s :: %s\n   real:     %s\n   template: %s' % (file, ' :: '.join(path), real_sig, tpl_sig))
            lost = []
            body = transform_body(it.body(), opts, log, lost)
            f = Fn()
            f.ghost_lost = lost
            f.name = fn_name
            f.source = file + ' :: ' + ' :: '.join(path)
            f.sha256 = hashlib.sha256(it.text().encode()).hexdigest()
            f.rewrites = log
            f._orig_body = it.body()
            f._new_body = body
            fns.append(f)
            out.append('//@@pasted %d' % (len(fns) - 1))
            out.append(body)
            continue
        out.append(ln)
        i += 1
    text = '\n'.join(out) + '\n'
    text = autoconst(text, fns)
    return text, fns


INT_TYPES = ('usize', 'u8', 'u16', 'u32', 'u64', 'isize', 'i8', 'i16', 'i32', 'i64')


def autoconst(text, fns):
    """T9: a pasted body may use a module-level integer constant of its source file that the template does not
    declare (e.g. one introduced by a later change).  Such a `const NAME: <int> = <literal>;` is pasted mechanically
    (as `exec const` with its value as postcondition) in front of the enclosing item; anything else is left to rustc
    (unknown name -> tool error -> exit 2)."""
    defined = set(re.findall(r'\bconst\s+([A-Z][A-Z0-9_]*)\b', text)) | set(re.findall(r'\bstatic\s+(?:mut\s+)?([A-Z][A-Z0-9_]*)', text))
    inserts = []
    for idx, f in enumerate(fns):
        body = rsrc.blank(f._new_body)
        ids = set(m.group(2) for m in re.finditer(r'(?<!\w)([.:]*)([A-Z][A-Z0-9_]{2,})\b(?!\s*(?:::|!|\())', body)
                  if not m.group(1).endswith(':') and m.group(1) != '.')
        for name in sorted(ids - defined):
            parts = f.source.split(' :: ')
            file, path = parts[0], parts[1:]
            mods = [p for p in path if p.startswith('mod ')]
            it = None
            for d in range(len(mods), -1, -1):
                try:
                    it = source(file).find(mods[:d] + ['const ' + name])
                    break
                except LostAnchor:
                    continue
            if it is None:
                continue
            mm = re.match(r'\s*(?:pub(?:\([^)]*\))?\s+)?const\s+' + name + r'\s*:\s*(\w+)\s*=\s*([0-9][0-9a-fA-Fx_]*?)(?:_?(?:[ui](?:8|16|32|64|size)))?\s*;\s*$', re.sub(r'^(?:\s*#\[[^\]]*\])*', '', rsrc.blank(it.text())), re.S)
            if not mm or mm.group(1) not in INT_TYPES:
                continue
            mk = text.index('//@@pasted %d\n' % idx)
            pos, _ = template_sig_before(text[:mk], f.name)
            clean = rsrc.blank(text[:pos])
            # climb out of impl / trait blocks
            while True:
                depth, k = 0, len(clean) - 1
                while k >= 0:
                    if clean[k] == '}':
                        depth += 1
                    elif clean[k] == '{':
                        if depth == 0:
                            break
                        depth -= 1
                    k -= 1
                if k < 0:
                    break
                j = max(clean.rfind(';', 0, k), clean.rfind('}', 0, k), clean.rfind('{', 0, k)) + 1
                hdr = clean[j:k]
                if re.search(r'\b(impl|trait)\b', hdr):
                    pos = j + (len(hdr) - len(hdr.lstrip()))
                    clean = clean[:pos]
                    continue
                break
            # in front of the comment / attribute / marker lines that belong to the item
            ls = text.rfind('\n', 0, pos) + 1
            while ls > 0:
                pl = text.rfind('\n', 0, ls - 1) + 1
                prev = text[pl:ls].strip()
                if prev.startswith('//') or prev.startswith('#['):
                    ls = pl
                else:
                    break
            inserts.append((ls, 'pub exec const %s: %s ensures %s == %s { %s }   // T9: pasted from %s\n' % (name, mm.group(1), name, mm.group(2), mm.group(2), file)))
            f.rewrites.append(('T9', 'module-level constant %s = %s pasted mechanically from %s' % (name, mm.group(2), file)))
            defined.add(name)
    for pos, txt in sorted(inserts, reverse=True):
        text = text[:pos] + txt + text[pos:]
    return text


FN_DECL_RE = re.compile(r'\b(?:(spec|proof|exec)\s+)?(?:const\s+)?fn\s+([A-Za-z_]\w*)')


def index_generated(unit, text, pasted):
    """scan the generated file: every fn with its qualified name, line range,
    props (from //@@prop markers) and clause labels."""
    # props markers: map line number -> props
    lines = text.split('\n')
    prop_at = {}
    pasted_at = {}
    for n, ln in enumerate(lines, 1):
        s = ln.strip()
        if s.startswith('//@@prop'):
            prop_at[n] = s.split()[1:]
        elif s.startswith('//@@pasted'):
            pasted_at[n] = int(s.split()[1])
    clean = rsrc.blank(text)
    # line starts
    starts = [0]
    for m in re.finditer('\n', text):
        starts.append(m.end())

    import bisect

    def line_of(pos):
        return bisect.bisect_right(starts, pos)

    fns = []

    def walk(lo, hi, quals):
        for it in rsrc.items(text, clean, lo, hi):
            if it.kind in ('impl', 'mod', 'trait') and it.body_open is not None:
                a, b = it.interior()
                q = it.name
                if it.kind == 'impl':
                    # `Trait for Type` -> Type ; `Type` -> Type
                    q = q.split(' for ')[-1].strip()
                    q = re.sub(r"^&?'?\w*\s*", '', q) if False else q
                walk(a, b, quals + [q])
            elif it.kind == 'macro' and it.name in ('verus',) and it.body_open is not None:
                a, b = it.interior()
                walk(a, b, quals)
            elif it.kind == 'fn' or (it.kind == 'other' and FN_DECL_RE.search(clean[it.hdr_start:it.body_open or it.end])):
                hdr = clean[it.hdr_start:(it.body_open or it.end)]
                m = FN_DECL_RE.search(hdr)
                if not m:
                    continue
                f = Fn()
                f.name = m.group(2)
                pre = hdr[:m.start()]
                f.kind = 'spec' if re.search(r'\bspec\b', hdr[:m.end()]) else ('proof' if re.search(r'\bproof\b', hdr[:m.end()]) else 'exec')
                f.qual = '::'.join(quals + [f.name])
                f.line_lo = line_of(it.start)
                f.line_hi = line_of(it.end - 1)
                f.has_requires = bool(re.search(r'\brequires\b', hdr))
                f._body_open = it.body_open
                f._external = bool(re.search(r'external_body|verifier::external\b', clean[it.start:it.hdr_start]))
                fns.append(f)

    walk(0, len(text), [])
    # attach props: a //@@prop marker applies to the first fn starting after it
    for n, props in prop_at.items():
        cands = [f for f in fns if f.line_lo > n]
        if not cands:
            raise ToolLimit('//@prop at generated line %d has no following fn' % n)
        f = min(cands, key=lambda f: f.line_lo)
        f.props = sorted(set(f.props) | set(props))
    for n, idx in pasted_at.items():
        cands = [f for f in fns if f.line_lo <= n <= f.line_hi]
        if not cands:
            raise ToolLimit('pasted body at line %d not inside a fn' % n)
        f = max(cands, key=lambda f: f.line_lo)
        p = pasted[idx]
        if f.name != p.name:
            raise ToolLimit('pasted body %s landed in fn %s' % (p.name, f.name))
        f.source, f.sha256, f.rewrites = p.source, p.sha256, p.rewrites
        f.ghost_lost = p.ghost_lost
        f.canary_line = n
    # clause labels
    for n, ln in enumerate(lines, 1):
        if '//' not in ln:
            continue
        ms = re.findall(r'\[(C\d\d)\s+([^\]]+)\]', ln[ln.index('//'):])
        if ms:
            for f in fns:
                if f.line_lo <= n <= f.line_hi:
                    f.clause_labels[n] = [(p, l.strip()) for (p, l) in ms]
    return fns


TRUST_RE = re.compile(r'(\baxiom\s+fn\b|#\[verifier::external_body\]|#\[verifier::external_type_specification\]|#\[verifier::external\]|#\[verifier::external_fn_specification\]|\bassume_specification\b|\bassume\s*\(|\badmit\s*\(\))')


def scan_trusted(text):
    clean = rsrc.blank(text)
    res = []
    lines = text.split('\n')
    # regions of imported contracts: (first line, last line, exporting unit)
    regions = []
    start = None
    for n_, ln_ in enumerate(lines, 1):
        m_ = re.match(r'// ===== imported contracts of (\S+)', ln_)
        if m_:
            start = (n_, m_.group(1))
        elif ln_.startswith('// ===== end of imported contracts') and start:
            regions.append((start[0], n_, start[1]))
            start = None
    for m in TRUST_RE.finditer(clean):
        n = clean.count('\n', 0, m.start()) + 1
        kind = m.group(1).strip('#[]').replace('verifier::', '').replace('(', '').strip()
        # name: next fn/struct name after the marker
        tail = clean[m.end():m.end() + 400]
        mm = re.search(r'\b(fn|struct|enum)\s+([A-Za-z_]\w*)', tail)
        if kind.startswith('assume_specification'):
            mm2 = re.search(r'assume_specification\s*(?:<[^>]*>)?\s*\[\s*([^\]]+)\]', clean[m.start():m.start() + 300])
            name = re.sub(r'\s+', '', mm2.group(1)) if mm2 else '?'
        elif kind.startswith('axiom'):
            kind = 'axiom'
            name = re.search(r'fn\s+(\w+)', clean[m.start():m.start() + 200]).group(1)
        elif kind in ('assume', 'admit'):
            name = 'line:' + lines[n - 1].strip()[:80]
        else:
            name = mm.group(2) if mm else '?'
        reg = [r for r in regions if r[0] <= n <= r[1]]
        if reg and kind == 'external_body':
            kind = 'imported-contract[%s]' % reg[0][2].replace('.vtpl', '')
        res.append((kind, name))
    # dedupe external_body + external_type_specification pairs on the same item
    return sorted(set(res))


VERIF_FAIL_PATTERNS = [
    'postcondition not satisfied', 'precondition not satisfied', 'assertion failed',
    'possible arithmetic underflow/overflow', 'possible division by zero',
    'invariant not satisfied before loop', 'invariant not satisfied at end of loop body',
    'decreases not satisfied', 'could not prove termination', 'possible bit shift underflow/overflow',
    'loop invariant not satisfied', 'unreachable', 'cannot show invariant', 'failed to prove',
    'possible truncation', 'assert_bitvector', 'bitvector assertion', 'may not terminate',
    'assertion not satisfied', 'constant evaluates to a value outside', 'cannot prove',
    'recommendation not met', 'unable to prove post-condition of closure', 'unable to prove pre-condition of closure',
    'closure', 
]
LIMIT_PATTERNS = ['Resource limit (rlimit) exceeded', 'rlimit', 'timed out', 'z3 crashed', 'resource limit']


def run_verus(path, extra=(), timeout=900):
    cmd = ['verus', path, '--output-json', '--time-expanded', '--error-format=json', '--multiple-errors', '4',
           '--no-report-long-running'] + list(extra)
    t0 = time.time()
    env = dict(os.environ)
    try:
        p = subprocess.run(cmd, stdout=subprocess.PIPE, stderr=subprocess.PIPE, text=True, timeout=timeout,
                           cwd=os.path.dirname(path), env=env)
    except subprocess.TimeoutExpired:
        raise ToolLimit('verus timed out after %ds on %s' % (timeout, path))
    wall = time.time() - t0
    try:
        js = json.loads(p.stdout[p.stdout.index('{'):]) if '{' in p.stdout else {}
    except Exception:
        js = {}
    diags = []
    for ln in p.stderr.split('\n'):
        ln = ln.strip()
        if ln.startswith('{'):
            try:
                d = json.loads(ln)
            except Exception:
                continue
            if d.get('$message_type') == 'diagnostic':
                diags.append(d)
    return {'cmd': ' '.join(cmd), 'rc': p.returncode, 'json': js, 'diags': diags, 'stderr': p.stderr, 'wall_s': wall}


def _call_site(span, fname):
    """resolve a span inside a std macro (panic!, unreachable!) to its call site in the generated file"""
    s = span
    seen = 0
    while s is not None and os.path.basename(s.get('file_name', '')) != fname and seen < 10:
        exp = s.get('expansion')
        if not exp:
            break
        nxt = dict(exp.get('span') or {})
        nxt['is_primary'] = span.get('is_primary')
        nxt['label'] = span.get('label')
        s = nxt
        seen += 1
    return s if s is not None and os.path.basename(s.get('file_name', '')) == fname else span


def classify(unit, fns, res):
    """-> dict with per-fn status and list of failures"""
    js = res['json']
    vr = js.get('verification-results', {})
    breakdown = {}
    for mod in js.get('times-ms', {}).get('smt', {}).get('smt-run-module-times', []):
        for fb in mod.get('function-breakdown', []):
            breakdown[fb['function']] = fb
    failures = []
    tool_errors = []
    for d in res['diags']:
        if d.get('level') != 'error':
            continue
        msg = d.get('message', '')
        if msg.startswith('aborting due to'):
            continue
        spans = [_call_site(s, os.path.basename(unit.out)) for s in d.get('spans', [])]
        prim = [s for s in spans if s.get('is_primary')] or spans
        line = prim[0]['line_start'] if prim else None
        is_verif = any(p in msg for p in VERIF_FAIL_PATTERNS)
        is_limit = any(p.lower() in msg.lower() for p in LIMIT_PATTERNS)
        # locate function
        f = None
        all_lines = [s['line_start'] for s in spans]
        for ln_ in ([line] if line else []) + all_lines:
            cands = [x for x in fns if x.line_lo <= ln_ <= x.line_hi]
            if cands:
                f = max(cands, key=lambda x: x.line_lo)
                break
        clause_line = None
        clause_end = None
        for s in spans:
            lab = (s.get('label') or '')
            if 'failed this postcondition' in lab or 'failed precondition' in lab or 'failed this' in lab:
                clause_line = s['line_start']
                clause_end = s.get('line_end', clause_line)
        if is_limit and not is_verif:
            tool_errors.append({'kind': 'rlimit', 'message': msg, 'line': line, 'fn': f.qual if f else None})
        elif is_verif and f is not None:
            failures.append({'fn': f, 'message': msg, 'line': line, 'clause_line': clause_line, 'clause_end': clause_end,
                             'rendered': d.get('rendered', '')})
        else:
            tool_errors.append({'kind': 'rustc-or-vir', 'message': msg, 'line': line, 'fn': f.qual if f else None,
                                'rendered': d.get('rendered', '')[:1500]})
    return {'verified': vr.get('verified'), 'errors': vr.get('errors'), 'success': vr.get('success'),
            'vir_error': vr.get('encountered-vir-error'), 'breakdown': breakdown,
            'failures': failures, 'tool_errors': tool_errors}


def fn_breakdown(f, breakdown):
    """find the verus breakdown entries for fn f (suffix match on qualified name)"""
    res = []
    for k, v in breakdown.items():
        tail = k.split('::', 1)[1] if '::' in k else k
        if tail == f.qual or tail.endswith('::' + f.qual):
            res.append(v)
    if not res:
        # trait impl fns are named impl&%N::name
        for k, v in breakdown.items():
            if k.endswith('::' + f.name) and 'impl&%' in k:
                res.append(v)
    return res


def make_diff(fns):
    import difflib
    out = []
    for f in fns:
        if not getattr(f, '_orig_body', None):
            continue
    return out


def build(unit_name):
    """expand template against the current /repo; returns (unit, fns)"""
    os.makedirs(BUILD, exist_ok=True)
    unit = Unit(unit_name)
    text, pasted = expand(unit)
    # write
    with open(unit.out, 'w') as fh:
        fh.write(text)
    fns = index_generated(unit, text, pasted)
    unit.text = text
    unit.fns = fns
    unit.trusted = scan_trusted(text)
    # diff file: original body vs pasted
    import difflib
    with open(os.path.join(BUILD, unit_name + '.diff'), 'w') as fh:
        for p in pasted:
            d = list(difflib.unified_diff(p._orig_body.split('\n'), p._new_body.split('\n'), 'repo:' + p.source, 'generated', lineterm='', n=0))
            if d:
                fh.write('\n'.join(d) + '\n')
    return unit


def make_canary(unit):
    """copy of the generated file where every pasted body starts with
    `assert(false)`: each such assertion must FAIL, else the function's
    precondition is contradictory (vacuous proof)."""
    lines = unit.text.split('\n')
    out = []
    canary_lines = {}
    for n, ln in enumerate(lines, 1):
        out.append(ln)
    # the pasted body starts on the line after the //@@pasted marker with '{'
    text = unit.text
    res = []
    pos = 0
    cl = {}
    for m in re.finditer(r'^//@@pasted (\d+)\n\{', text, re.M):
        res.append(text[pos:m.end()])
        res.append(' proof { assert(false); } ')
        pos = m.end()
    res.append(text[pos:])
    ctext = ''.join(res)
    path = os.path.join(BUILD, unit.name + '_canary.rs')
    with open(path, 'w') as fh:
        fh.write(ctext)
    return path


def check_canary(unit, timeout=900):
    path = make_canary(unit)
    res = run_verus(path, ['--no-auto-recommends-check'], timeout)
    # lines with the canary
    want = {}
    for f in unit.fns:
        if f.canary_line:
            want[f.canary_line + 1] = f
    seen = set()
    for d in res['diags']:
        if d.get('level') == 'error' and 'assertion failed' in d.get('message', ''):
            for s in d.get('spans', []):
                if s['line_start'] in want and 'assert(false)' in ''.join(t['text'] for t in s.get('text', [])):
                    seen.add(s['line_start'])
    other = [d for d in res['diags'] if d.get('level') == 'error' and 'assertion failed' not in d.get('message', '') and not d.get('message', '').startswith('aborting')]
    vacuous = [f for ln, f in want.items() if ln not in seen]
    return {'checked': len(want), 'vacuous': [f.qual for f in vacuous], 'other_errors': [d.get('message') for d in other][:5], 'wall_s': res['wall_s']}


if __name__ == '__main__':
    cmd, name = sys.argv[1], sys.argv[2]
    u = build(name)
    if cmd == 'bless':
        with open(os.path.join(VERIF, 'specs', name + '.trusted'), 'w') as fh:
            fh.write('# trusted base of unit %s (kind name); regenerate with: python3 lib/vx.py bless %s\n' % (name, name))
            for k, n in u.trusted:
                fh.write('%s %s\n' % (k, n))
        print('blessed', len(u.trusted), 'entries')
    elif cmd == 'run':
        print(len(u.fns), 'fns;', len([f for f in u.fns if f.source]), 'pasted')
        if '-v' in sys.argv:
            for f in u.fns:
                print(f.qual, f.kind, f.props, f.line_lo, f.line_hi, f.source, f.rewrites)
        r = run_verus(u.out, sys.argv[3:] if '-v' not in sys.argv else [])
        c = classify(u, u.fns, r)
        print('verified', c['verified'], 'errors', c['errors'], 'success', c['success'], 'wall %.1fs' % r['wall_s'])
        for x in c['failures']:
            print('FAIL', x['fn'].qual, x['message'], x['line'], x['clause_line'])
            print(x['rendered'])
        for x in c['tool_errors']:
            print('TOOL', x.get('rendered') or x)
    elif cmd == 'canary':
        print(check_canary(u))
