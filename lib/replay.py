"""replay files: one JSON per reported violation.

A replay file names the failed obligation, carries the verifier's output and,
when a Kani harness (the failing harness itself, or the Kani mirror of a
failed Verus obligation) produced a counterexample, the concrete values plus
the generated playback test.  `check <Cxx> --replay <file>` re-injects the
harness and the recorded values into a scratch copy of the *current* /repo and
runs them natively (cargo kani playback), showing the panic / failed assertion
on the real code.
"""
import json
import os
import re
import sys

HERE = os.path.dirname(os.path.abspath(__file__))
VERIF = os.path.dirname(HERE)
sys.path.insert(0, HERE)


def slug(s):
    return re.sub(r'[^A-Za-z0-9]+', '-', s).strip('-')[:80]


def write_replay(prop, v, tier):
    rdir = os.environ.get('VERIF_REPLAY_DIR', os.path.join(VERIF, 'replays'))
    os.makedirs(rdir, exist_ok=True)
    path = os.path.join(rdir, '%s-%s.json' % (prop, slug(v['fn'] + '-' + v['label'])))
    w = v.get('witness') or {}
    found = bool(w.get('test')) or bool(w.get('native_test'))
    doc = {
        'property': prop, 'engine': v['engine'], 'unit': v.get('unit'), 'function': v['fn'], 'source': v.get('source'),
        'failed_obligation': v['label'], 'verifier_message': v['message'], 'verifier_output': v.get('rendered', '')[-6000:],
        'kani_harness': v.get('harness') or (v['fn'] if v['engine'] == 'kani' else None),
        'counterexample_values': w.get('values'), 'playback_test': w.get('test'),
        'native_witness_test': w.get('native_test'), 'native_witness_log': w.get('log'), 'native_witness_cmd': w.get('cmd'),
        'native_replay': v.get('native_replay'),
        'failing_input_found': found,
        'reproduce': 'cd /verif && bin/check %s --replay %s' % (prop, os.path.relpath(path, VERIF)),
    }
    with open(path, 'w') as fh:
        json.dump(doc, fh, indent=1)
    return path, found


def main(path):
    import kx
    doc = json.load(open(path if os.path.isabs(path) else os.path.join(VERIF, path)))
    print('property   :', doc['property'])
    print('obligation :', doc['function'], '/', doc['failed_obligation'])
    print('verifier   :', doc['verifier_message'])
    if doc.get('playback_test') and doc.get('kani_harness'):
        rep, ran, out, cmd = kx.playback(doc['kani_harness'], doc['playback_test'])
        print('native replay command:', cmd)
        print(out[-2500:])
        if not ran:
            print('REPLAY: could not run the playback test (build problem)')
            return 2
        if rep:
            print('REPLAY: reproduced on the current /repo tree (the recorded input makes the real code fail)')
            return 1
        print('REPLAY: the recorded input no longer fails on the current /repo tree')
        return 0
    if doc.get('native_witness_test'):
        import nx
        r = nx.run([doc['native_witness_test']]).get(doc['native_witness_test'])
        if not r or not r[1]:
            print('REPLAY: could not run native witness test', doc['native_witness_test'])
            return 2
        print('native replay command:', r[3], '(injected into a scratch copy of the current /repo)')
        print(r[2])
        if r[0]:
            print('REPLAY: reproduced on the current /repo tree (the witness test fails on the real code)')
            return 1
        print('REPLAY: the witness test passes on the current /repo tree')
        return 0
    print('no concrete input recorded (no-failing-input-found); verifier output follows')
    print(doc.get('verifier_output', ''))
    return 1
