#!/usr/bin/env python3
"""regenerate MANIFEST.json from lib/props.py (so the manifest always matches what bin/check can decide)"""
import json, os, sys
HERE = os.path.dirname(os.path.abspath(__file__))
sys.path.insert(0, HERE)
import props as P
VERIF = os.path.dirname(HERE)
ALL = ['C%02d' % i for i in range(1, 21)]
checks = []
for pid in ALL:
    if pid not in P.PROPS:
        continue
    c = P.PROPS[pid]
    checks.append({
        'property_id': pid,
        'quick_cmd': 'bin/check %s --tier quick' % pid,
        'thorough_cmd': 'bin/check %s --tier thorough' % pid,
        'evidence_file': 'evidence/%s.json' % pid,
        'replay_cmd_template': 'bin/check %s --replay {path}' % pid,
        'engine': 'vx+kx',
        'level_claimed': {'category': c.get('level', 'proof'), 'text': c['level_text'], 'design_ref': c.get('design_ref', 'DESIGN.md section 3, ' + pid)},
        'level_note': c['level_note'],
        'technique': c['technique'],
    })
na = [{'property_id': pid, 'reason': P.NOT_APPLICABLE[pid]} for pid in ALL if pid not in P.PROPS]
m = {
    'version': 1,
    'setup_cmd': 'sh bin/setup',
    'hooks': {
        'guard': 'fujiapple852_trippy_verif',
        'enable': 'no hooks are needed: Engine A reads /repo source text, Engine B injects #[cfg(kani)] modules into a scratch copy outside /repo',
        'baseline_off_cmd': 'cd /repo && cargo test --workspace --no-fail-fast --offline',
        'source_commits': [],
        'add_only': True,
    },
    'engines': [
        {'name': 'vx', 'path': 'lib/vx.py', 'serves_properties': [p for p in ALL if p in P.PROPS and P.PROPS[p].get('units')],
         'kind_free_text': 'template-driven mechanical extraction of real function bodies from /repo into one Verus file per unit; contracts (requires/ensures/invariants/lemmas) hand written in specs/*.vtpl; verus + z3 discharge every obligation'},
        {'name': 'kx', 'path': 'lib/kx.py', 'serves_properties': [p for p in ALL if p in P.PROPS and P.PROPS[p].get('kani')],
         'kind_free_text': 'Kani/CBMC harnesses injected into a scratch copy of the real crates: loop-free full-domain proofs, counterexample witnesses with native playback, and labelled bounded stand-ins'},
    ],
    'checks': checks,
    'not_applicable': na,
    'notes': 'Contract-based deductive verification of the real code. Exit 0 = all obligations discharged (KNOWN-FINDING lines for listed open findings); 1 = VIOLATION; 2 = undecided (tool limit, lost anchor, vacuity/trusted-base scan failure) - never an alarm.',
}
json.dump(m, open(os.path.join(VERIF, 'MANIFEST.json'), 'w'), indent=1)
print('MANIFEST.json: %d checks, %d not applicable' % (len(checks), len(na)))
