#!/usr/bin/env python3
"""consistency lint: every `[Cxx label]` / `//@prop Cxx` in a unit must belong to a property that runs that unit"""
import os, re, sys
sys.path.insert(0, os.path.dirname(__file__))
import props, vx

ROOT = os.path.dirname(os.path.dirname(os.path.abspath(__file__)))


def main():
    bad = 0
    units = sorted({u for p in props.PROPS.values() for u in p['units']})
    where = {}   # (fn qual, prop) -> units in which the real body is pasted (shared preludes paste a fn into several units)
    for u in units:
        g = vx.build(u)
        for f in g.fns:
            if not getattr(f, 'source', None):
                continue   # only pasted real functions carry obligations of a property
            used = {pp for pls in f.clause_labels.values() for (pp, _) in pls} | {t.split(':')[0] for t in f.props}
            for pp in used:
                where.setdefault((f.qual, pp), set()).add(u)
    for (q, pp), us in sorted(where.items()):
        if pp in props.NOT_APPLICABLE:
            continue
        if pp not in props.PROPS or not (us & set(props.PROPS[pp]['units'])):
            print('LINT fn %s carries %s but %s runs none of %s' % (q, pp, pp, sorted(us)))
            bad += 1
    print('lint: %d problems' % bad)
    return 1 if bad else 0


if __name__ == '__main__':
    sys.exit(main())
