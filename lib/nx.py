"""native witness tests: plain `cargo test` of hand-written demonstrations injected into a scratch copy.
Used only to attach a failing input to an obligation the verifier has already failed (never to decide one)."""
import glob
import os
import re
import subprocess
import sys

HERE = os.path.dirname(os.path.abspath(__file__))
sys.path.insert(0, HERE)
import kx  # noqa: E402

VERIF = os.path.dirname(HERE)
TARGET_NATIVE = os.path.join(kx.ROOT, 'target-native')


def table():
    t = []
    for p in sorted(glob.glob(os.path.join(VERIF, 'kani', 'native', '*.test.rs'))):
        txt = open(p).read()
        target = re.search(r'^//@target\s+(\S+)', txt, re.M).group(1)
        crate = re.search(r'^//@crate\s+(\S+)', txt, re.M).group(1)
        for m in re.finditer(r'//@witness\s+(\S+)\s+(\S+)(?:\s+(\S+))?\s*\n(?:\s*///[^\n]*\n)*\s*#\[test\]\s*\n\s*fn\s+(\w+)', txt):
            t.append({'file': p, 'target': target, 'crate': crate, 'unit': m.group(1), 'fn': m.group(2), 'label': m.group(3), 'test': m.group(4), 'text': txt})
    return t


def witnesses_for(unit, fn_qual, label=None):
    return [w for w in table() if w['unit'] == unit and w['fn'] == fn_qual and (not w['label'] or (label and re.search(w['label'], label)))]


def run(test_names, timeout=1800):
    """run the named native tests against the current /repo; returns {name: (failed: bool, ran: bool, log)}"""
    tb = [w for w in table() if w['test'] in test_names]
    res = {}
    if not tb:
        return res
    with kx.Lock():
        extra = {}
        for w in tb:
            extra[w['target']] = w['text']
        kx.prepare(extra_tests=extra)
        for crate in sorted(set(w['crate'] for w in tb)):
            names = [w['test'] for w in tb if w['crate'] == crate]
            env = kx._env()
            env['CARGO_TARGET_DIR'] = TARGET_NATIVE
            cmd = ['cargo', 'test', '--offline', '-p', crate, '--lib', '--', '--test-threads', '1'] + names
            p = subprocess.run(cmd, cwd=kx.WS, env=env, stdout=subprocess.PIPE, stderr=subprocess.STDOUT, text=True, timeout=timeout)
            out = p.stdout
            for n in names:
                m = re.search(r'test .*::%s \.\.\. (\w+)' % re.escape(n), out)
                ran = bool(m)
                failed = bool(m and m.group(1) == 'FAILED')
                # keep the panic message of this test
                mm = re.search(r'---- .*::%s stdout ----\n(.*?)(?=\n----|\nfailures:)' % re.escape(n), out, re.S)
                res[n] = (failed, ran, (mm.group(1) if mm else out[-1500:])[-1500:], ' '.join(cmd))
        kx.prepare()
    return res


if __name__ == '__main__':
    for k, v in run(sys.argv[1:] or [w['test'] for w in table()]).items():
        print(k, 'FAILED(reproduced)' if v[0] else ('passed' if v[1] else 'NOT RUN'), '\n   ', v[2].strip().replace('\n', '\n    ')[:600])
