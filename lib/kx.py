"""Engine B ("kx"): Kani on a scratch copy of the real crates.

/repo is never edited.  The workspace is mirrored to a scratch directory outside
/repo and /verif, `#[instrument...]` attributes and `tracing::<level>!(..);` statements are stripped (kani-compiler 0.68
ICEs on them; stated drop), and the harness modules of /verif/kani/*.inject.rs
are appended to the real source files (inside the named module so that private
items are reachable).  Harness metadata lives in the inject files:

  //@target crates/trippy-packet/src/ipv4.rs        file the text is appended to
  //@crate trippy-packet
  //@harness <fn name> mode=complete|bounded [bound="text"] [timeout=SECONDS]

mode=complete : loop-free (or fully unwound, unwinding assertions on) harness
                over the full symbolic input domain -> counted as discharged
mode=bounded  : bounded stand-in, reported but never counted as proved
"""
import fcntl
import sys as _sys
_sys.path.insert(0, __import__('os').path.dirname(__import__('os').path.abspath(__file__)))
import glob
import json
import os
import re
import shutil
import subprocess
import sys
import time

VERIF = os.path.dirname(os.path.dirname(os.path.abspath(__file__)))
REPO = os.environ.get('VERIF_REPO', '/repo')
ROOT = os.environ.get('VERIF_KX_DIR', '/var/tmp/verif-kx')
WS = os.path.join(ROOT, 'ws')
TARGET = os.path.join(ROOT, 'target')
TARGET_PB = os.path.join(ROOT, 'target-pb')


class KaniLimit(Exception):
    pass


INSTRUMENT_RE = re.compile(r'^[ \t]*#\[instrument\b')


def strip_instrument(text):
    """drop `#[instrument(...)]` attributes (possibly multi-line)"""
    out = []
    lines = text.split('\n')
    i = 0
    n = 0
    while i < len(lines):
        if INSTRUMENT_RE.match(lines[i]):
            depth = 0
            while i < len(lines):
                depth += lines[i].count('[') - lines[i].count(']')
                i += 1
                if depth <= 0:
                    break
            n += 1
            continue
        out.append(lines[i])
        i += 1
    return '\n'.join(out), n


def load_injections():
    inj = []
    files = [(p, None) for p in sorted(glob.glob(os.path.join(VERIF, 'kani', '**', '*.inject.rs'), recursive=True))]
    for g in sorted(glob.glob(os.path.join(VERIF, 'kani', '**', '*.inject.py'), recursive=True)):
        pr = subprocess.run([sys.executable, g], stdout=subprocess.PIPE, stderr=subprocess.PIPE, text=True, env=dict(os.environ, VERIF_REPO=REPO))
        if pr.returncode != 0:
            raise KaniLimit('harness generator %s failed: %s' % (g, pr.stderr[-500:]))
        files.append((g, pr.stdout))
    for p, gen_txt in files:
        txt = gen_txt if gen_txt is not None else open(p).read()
        m = re.search(r'^//@target\s+(\S+)', txt, re.M)
        c = re.search(r'^//@crate\s+(\S+)', txt, re.M)
        if not m or not c:
            raise KaniLimit('inject file %s lacks //@target or //@crate' % p)
        harn = {}
        for hm in re.finditer(r'^\s*//@harness\s+(\w+)\s+(.*)$', txt, re.M):
            kv = dict((k, v.strip('"')) for k, v in re.findall(r'(\w+)=("[^"]*"|\S+)', hm.group(2)))
            harn[hm.group(1)] = kv
        inj.append({'path': p, 'target': m.group(1), 'crate': c.group(1), 'text': txt, 'harnesses': harn})
    return inj


def harness_table():
    t = {}
    for i in load_injections():
        for h, kv in i['harnesses'].items():
            t[h] = dict(kv, crate=i['crate'], file=i['target'], inject=os.path.relpath(i['path'], VERIF))
    return t


def write_if_changed(path, content):
    if os.path.exists(path):
        try:
            if open(path).read() == content:
                return False
        except UnicodeDecodeError:
            pass
    os.makedirs(os.path.dirname(path), exist_ok=True)
    with open(path, 'w') as fh:
        fh.write(content)
    return True


def prepare(extra_tests=None):
    """mirror /repo into WS with injections; returns list of stated drops"""
    os.makedirs(ROOT, exist_ok=True)
    inj = load_injections()
    by_target = {}
    for i in inj:
        by_target.setdefault(i['target'], []).append(i)
    keep = set()
    dropped = 0
    for top in ('Cargo.toml', 'Cargo.lock'):
        write_if_changed(os.path.join(WS, top), open(os.path.join(REPO, top)).read())
        keep.add(top)
    for base in ('crates', 'examples'):
        for dp, dn, fn in os.walk(os.path.join(REPO, base)):
            dn[:] = [d for d in dn if d not in ('target', '.git')]
            for f in fn:
                src = os.path.join(dp, f)
                rel = os.path.relpath(src, REPO)
                keep.add(rel)
                dst = os.path.join(WS, rel)
                if f.endswith('.rs'):
                    txt = open(src).read()
                    if '/trippy-core/' in src or '/trippy-packet/' in src:
                        txt, n = strip_instrument(txt)
                        dropped += n
                        if 'tracing::' in txt:
                            # `tracing::debug!(..)` statements with arguments in harness-reachable code make kani-compiler 0.68
                            # panic (intrinsics.rs:243); logging statements are dropped like the #[instrument] attributes
                            import vx as _vx
                            txt = _vx.strip_macro_stmts(txt, ['tracing::trace', 'tracing::debug', 'tracing::info', 'tracing::warn', 'tracing::error'], [])
                    for i in by_target.get(rel, []):
                        m_in = re.search(r'^//@inside\s+(.+)$', i['text'], re.M)
                        if m_in:
                            # place the harness module inside the named (private) module so that its private items are reachable
                            import rsrc
                            tmp = os.path.join(ROOT, 'inside.tmp.rs')
                            open(tmp, 'w').write(txt)
                            try:
                                it = rsrc.Source(tmp).find([e.strip() for e in m_in.group(1).split('::')])
                                a_, b_ = it.interior()
                            except rsrc.LostAnchor as e:
                                raise KaniLimit('inject %s: %s' % (i['path'], e))
                            txt = txt[:b_] + '\n// ---- injected by /verif (%s) ----\n' % os.path.relpath(i['path'], VERIF) + i['text'] + '\n' + txt[b_:]
                            continue
                        txt = txt.rstrip('\n') + '\n\n// ---- injected by /verif (%s) ----\n' % os.path.relpath(i['path'], VERIF) + i['text']
                    if extra_tests and rel in extra_tests:
                        txt = txt.rstrip('\n') + '\n\n' + extra_tests[rel]
                    write_if_changed(dst, txt)
                else:
                    # binary-safe copy when changed
                    if not os.path.exists(dst) or os.path.getsize(dst) != os.path.getsize(src) or os.path.getmtime(dst) < os.path.getmtime(src):
                        os.makedirs(os.path.dirname(dst), exist_ok=True)
                        shutil.copy2(src, dst)
    # remove files that vanished from /repo
    for base in ('crates', 'examples'):
        for dp, dn, fn in os.walk(os.path.join(WS, base)):
            for f in fn:
                rel = os.path.relpath(os.path.join(dp, f), WS)
                if rel not in keep:
                    os.remove(os.path.join(dp, f))
    for t in by_target:
        if t not in keep:
            raise KaniLimit('inject target %s does not exist in the repository (lost anchor)' % t)
    return dropped


class Lock:
    def __enter__(self):
        os.makedirs(ROOT, exist_ok=True)
        self.fh = open(os.path.join(ROOT, 'lock'), 'w')
        fcntl.flock(self.fh, fcntl.LOCK_EX)
        return self

    def __exit__(self, *a):
        fcntl.flock(self.fh, fcntl.LOCK_UN)
        self.fh.close()


def _env():
    e = dict(os.environ)
    e['CARGO_NET_OFFLINE'] = 'true'
    e.pop('RUSTFLAGS', None)
    return e


COMPILE_ERR_RE = re.compile(r'^error(\[E\d+\])?:', re.M)


MEM_LIMIT_BYTES = int(os.environ.get('VERIF_KANI_MEM_GB', '30')) * (1 << 30)


def _limit_mem():
    """address-space limit inherited by cargo / kani / cbmc: a harness that explodes dies with an allocation
    failure (reported as out-of-memory -> exit 2) instead of taking the machine down"""
    import resource
    resource.setrlimit(resource.RLIMIT_AS, (MEM_LIMIT_BYTES, MEM_LIMIT_BYTES))


def _run_group(cmd, timeout, env, cwd, preexec_fn=None):
    """subprocess.run with its own process group: on timeout the WHOLE group (cargo -> kani-driver -> cbmc) is
    killed, so no solver is left running behind the check"""
    import signal

    def _pre():
        os.setsid()
        if preexec_fn:
            preexec_fn()
    p = subprocess.Popen(cmd, cwd=cwd, env=env, stdout=subprocess.PIPE, stderr=subprocess.STDOUT, text=True, preexec_fn=_pre)
    try:
        out, _ = p.communicate(timeout=timeout)
        return subprocess.CompletedProcess(cmd, p.returncode, out, None)
    except subprocess.TimeoutExpired:
        try:
            os.killpg(p.pid, signal.SIGKILL)
        except ProcessLookupError:
            pass
        out, _ = p.communicate()
        raise subprocess.TimeoutExpired(cmd, timeout, output=out)
    finally:
        # kani-driver may leave cbmc children of a harness that hit --harness-timeout: reap the group
        try:
            os.killpg(p.pid, signal.SIGKILL)
        except (ProcessLookupError, PermissionError):
            pass


def _limit_mem_heavy():
    import resource
    lim = int(os.environ.get('VERIF_KANI_MEM_HEAVY_GB', '48')) * (1 << 30)
    resource.setrlimit(resource.RLIMIT_AS, (lim, lim))


def run_harnesses(names, tier='quick', jobs=None):
    """run the named harnesses; returns list of result dicts"""
    table = harness_table()
    for n in names:
        if n not in table:
            raise KaniLimit('harness %s not defined in /verif/kani' % n)
    res = []
    with Lock():
        dropped = prepare()
        by_crate = {}
        for n in names:
            by_crate.setdefault(table[n]['crate'], []).append(n)
        for crate, hs in by_crate.items():
            tmax = max(int(table[h].get('timeout', 600)) for h in hs)
            out_json = os.path.join(ROOT, 'out-%s-%d.json' % (crate, os.getpid()))
            if os.path.exists(out_json):
                os.remove(out_json)
            njobs = jobs or (12 if crate == 'trippy-packet' else 2)
            # heavy harnesses (whole receive / dispatch paths over 1 KiB buffers) need 10-40 GB each: run them one at
            # a time with a larger address-space limit instead of two side by side (62 GB machine, no swap)
            import props as _P
            heavy = [h for h in hs if h in _P.HEAVY_HARNESSES]
            if heavy and not jobs:
                njobs = 1
            limit_fn = _limit_mem_heavy if heavy else _limit_mem
            cmd = ['cargo', 'kani', '-p', crate, '-Z', 'function-contracts', '-Z', 'stubbing', '-Z', 'unstable-options',
                   '--output-format', 'terse', '-j', str(njobs), '--harness-timeout', '%ds' % tmax,
                   '--export-json', out_json, '--target-dir', TARGET]
            for h in hs:
                cmd += ['--harness', h]
            t0 = time.time()
            try:
                p = _run_group(cmd, tmax * (1 + len(hs) // njobs) + 1200, _env(), WS, preexec_fn=limit_fn)
                out = p.stdout
            except subprocess.TimeoutExpired as e:
                out = (e.stdout or b'').decode() if isinstance(e.stdout, bytes) else (e.stdout or '')
                for h in hs:
                    res.append({'name': h, 'status': 'TIMEOUT', 'time_s': time.time() - t0, 'mode': table[h].get('mode'), 'bound': table[h].get('bound'),
                                'cmd': ' '.join(cmd), 'file': table[h]['file']})
                continue
            wall = time.time() - t0
            js = None
            if os.path.exists(out_json):
                try:
                    js = json.load(open(out_json))
                except Exception:
                    js = None
                os.remove(out_json)
            if js is None or 'verification_results' not in js:
                tail = '\n'.join(l for l in out.split('\n') if not l.startswith('warning') and l.strip())[-3000:]
                kind = 'COMPILE-ERROR' if COMPILE_ERR_RE.search(out) else 'NO-RESULT'
                sys.stderr.write('kani produced no result file; output tail:\n' + tail[-1500:] + '\n')
                for h in hs:
                    res.append({'name': h, 'status': kind, 'time_s': wall, 'mode': table[h].get('mode'), 'bound': table[h].get('bound'),
                                'cmd': ' '.join(cmd), 'file': table[h]['file'], 'log_tail': tail})
                if kind == 'COMPILE-ERROR':
                    raise KaniLimit('scratch crate %s does not compile under kani:\n%s' % (crate, tail[-1500:]))
                continue
            by_id = {}
            for r in js['verification_results'].get('results', []):
                by_id[r['harness_id'].split('::')[-1]] = r
            for h in hs:
                r = by_id.get(h)
                meta = table[h]
                row = {'name': h, 'mode': meta.get('mode', 'bounded'), 'bound': meta.get('bound'), 'cmd': ' '.join(cmd), 'file': meta['file'],
                       'crate': crate, 'inject': meta['inject']}
                if r is None:
                    row.update(status='NO-RESULT', time_s=wall)
                    res.append(row)
                    continue
                checks = r.get('checks', [])
                failed = [c for c in checks if c.get('status') in ('Failure', 'Failed', 'FAILURE')]
                undet = [c for c in checks if c.get('status') in ('Undetermined', 'UNDETERMINED')]
                unw = [c for c in failed if 'unwinding assertion' in (c.get('description') or '')]
                unsupported = [c for c in failed if 'is not currently supported by Kani' in (c.get('description') or '') or 'unsupported' in (c.get('category') or '')]
                row['time_s'] = r.get('duration_ms', 0) / 1000.0
                row['checks'] = len(checks)
                st = r.get('status')
                if st == 'Success' and not failed:
                    row['status'] = 'SUCCESSFUL'
                elif unsupported:
                    row['status'] = 'UNSUPPORTED-CONSTRUCT'
                    row['failed'] = [c.get('description') for c in unsupported][:3]
                elif failed and len(unw) == len(failed):
                    row['status'] = 'UNWIND-BOUND-TOO-SMALL'
                elif failed:
                    row['status'] = 'FAILED'
                    row['failed'] = ['%s [%s:%s %s]' % (c.get('description'), os.path.basename((c.get('location') or {}).get('file') or '?'),
                                                        (c.get('location') or {}).get('line'), c.get('function')) for c in failed if c not in unw][:8]
                else:
                    oom = ('out of memory' in out) or ('CBMC failed' in out and h in out)
                    row['status'] = 'TIMEOUT' if 'imeout' in json.dumps(r)[:2000] or r.get('duration_ms', 0) >= tmax * 1000 else ('OUT-OF-MEMORY' if oom else 'ERROR:' + str(st))
                res.append(row)
        # counterexamples for failed harnesses (sequential; concrete playback is incompatible with -j)
        for row in res:
            if row['status'] == 'FAILED':
                try:
                    row['witness'] = witness(row['name'], row['crate'])
                except Exception as e:  # never let witness extraction mask the failure
                    row['witness'] = {'error': str(e)}
    return res


def witness(harness, crate, timeout=420):
    """re-run one failed harness with concrete playback; returns {'test': text, 'values': [...]}"""
    cmd = ['cargo', 'kani', '-p', crate, '-Z', 'function-contracts', '-Z', 'stubbing', '-Z', 'concrete-playback', '--concrete-playback=print',
           '--output-format', 'terse', '--harness', harness, '--target-dir', TARGET]
    p = _run_group(cmd, timeout, _env(), WS, preexec_fn=_limit_mem)
    m = re.search(r'```\s*\n((?:(?!```).)*?#\[test\].*?)```', p.stdout, re.S)
    if not m:
        return {'error': 'kani printed no concrete playback test', 'cmd': ' '.join(cmd)}
    test = m.group(1)
    test = test[test.index('#[test]'):]
    vals = [[int(x) for x in v.split(',') if x.strip()] for v in re.findall(r'vec!\[([0-9, ]*)\]', test)]
    return {'test': test, 'values': vals[1:] if vals and not vals[0] else vals, 'cmd': ' '.join(cmd)}


def playback(harness, test_text, timeout=1200):
    """run the recorded concrete values natively against the current /repo code.
    returns (reproduced: bool, log tail)"""
    table = harness_table()
    meta = table[harness]
    # the test must live in the harness module: append to the inject text of that file
    with Lock():
        inj = [i for i in load_injections() if harness in i['harnesses']][0]
        # place the test inside the injected module: before its final closing brace
        body = inj['text'].rstrip()
        assert body.endswith('}')
        new_inject = body[:-1] + '\n' + test_text + '\n}\n'
        # temporarily prepare with modified inject text
        orig = inj['text']
        try:
            _orig_load = globals()['load_injections']

            def patched():
                r = _orig_load()
                for i in r:
                    if i['path'] == inj['path']:
                        i['text'] = new_inject
                return r
            globals()['load_injections'] = patched
            prepare()
        finally:
            globals()['load_injections'] = _orig_load
        name = re.search(r'fn\s+(kani_concrete_playback_\w+)', test_text).group(1)
        env = _env()
        env['CARGO_TARGET_DIR'] = TARGET_PB
        cmd = ['cargo', 'kani', 'playback', '-Z', 'concrete-playback', '-p', meta['crate'], '--', name]
        p = _run_group(cmd, timeout, env, WS)
        out = '\n'.join(l for l in p.stdout.split('\n') if not l.startswith('warning'))
        reproduced = ('test result: FAILED' in out) or ('panicked at' in out)
        ran = 'running 1 test' in out
        prepare()  # restore
        return reproduced, ran, out[-4000:], ' '.join(cmd)


if __name__ == '__main__':
    # kx.py run <harness>... | list
    if sys.argv[1] == 'list':
        for h, kv in sorted(harness_table().items()):
            print(h, kv.get('mode'), kv.get('crate'), kv.get('bound', ''))
    else:
        names = sys.argv[2:]
        if names == ['ALL']:
            names = sorted(harness_table())
        elif len(names) == 1 and names[0].endswith('*'):
            names = sorted(h for h in harness_table() if h.startswith(names[0][:-1]))
        for r in run_harnesses(names):
            print(r['name'], r['status'], '%.1fs' % r['time_s'], r.get('failed', ''))
            if r.get('witness'):
                print('   witness values:', str(r['witness'].get('values'))[:300], r['witness'].get('error', ''))
