"""Token-level Rust source scanner used by the extractor.

No semantic parsing: comments / string / char literals are blanked (same
length), then items are located by brace matching.  Good enough to find
`fn`, `impl`, `mod`, `struct`, `enum`, `const` items by a path such as

    crates/trippy-packet/src/ipv4.rs :: impl Ipv4Packet :: fn get_version

A path that matches zero or several items is a *lost anchor* (LostAnchor).
"""
import re


class LostAnchor(Exception):
    pass


def blank(src):
    """Return a copy of src where comments and the contents of string/char
    literals are replaced by spaces (newlines kept)."""
    out = list(src)
    n = len(src)
    i = 0

    def fill(a, b):
        for k in range(a, b):
            if out[k] != '\n':
                out[k] = ' '

    while i < n:
        c = src[i]
        if c == '/' and i + 1 < n and src[i + 1] == '/':
            j = src.find('\n', i)
            if j < 0:
                j = n
            fill(i, j)
            i = j
        elif c == '/' and i + 1 < n and src[i + 1] == '*':
            depth = 1
            j = i + 2
            while j < n and depth:
                if src.startswith('/*', j):
                    depth += 1
                    j += 2
                elif src.startswith('*/', j):
                    depth -= 1
                    j += 2
                else:
                    j += 1
            fill(i, j)
            i = j
        elif c == '"' or (c in 'rb' and re.match(r'(?:br|rb|r|b)#*"', src[i:i + 8]) and not (i > 0 and (src[i - 1].isalnum() or src[i - 1] == '_'))):
            m = re.match(r'(br|rb|r|b)?(#*)"', src[i:i + 40])
            pre, hashes = (m.group(1) or ''), m.group(2)
            j = i + m.end()
            if 'r' in pre:
                end = src.find('"' + hashes, j)
                end = n if end < 0 else end
                fill(j, end)
                i = end + 1 + len(hashes)
            else:
                while j < n and src[j] != '"':
                    j += 2 if src[j] == '\\' else 1
                fill(i + m.end(), j)
                i = j + 1
        elif c == "'":
            # char literal or lifetime
            if i + 1 < n and src[i + 1] == '\\':
                j = src.find("'", i + 2)
                # '\'' case
                if src[i + 2] == "'" :
                    j = i + 3
                fill(i + 1, j)
                i = j + 1
            elif i + 2 < n and src[i + 2] == "'":
                fill(i + 1, i + 2)
                i += 3
            else:
                i += 1  # lifetime
        else:
            i += 1
    return ''.join(out)


OPEN = '([{'
CLOSE = ')]}'


def match_close(clean, i):
    """clean[i] is an opening bracket; return index of its partner."""
    depth = 0
    n = len(clean)
    j = i
    while j < n:
        ch = clean[j]
        if ch in OPEN:
            depth += 1
        elif ch in CLOSE:
            depth -= 1
            if depth == 0:
                return j
        j += 1
    raise LostAnchor('unbalanced bracket at %d' % i)


def strip_generics(s):
    """remove <...> groups (angle depth), keep '->' intact."""
    out = []
    depth = 0
    i = 0
    while i < len(s):
        ch = s[i]
        if ch == '-' and s[i:i + 2] == '->':
            if depth == 0:
                out.append('->')
            i += 2
            continue
        if ch == '<':
            depth += 1
        elif ch == '>':
            depth -= 1
        elif depth == 0:
            out.append(ch)
        i += 1
    return ''.join(out)


def norm_ws(s):
    s = re.sub(r'\s+', ' ', s).strip()
    # drop spaces around punctuation
    s = re.sub(r'\s*([(){}\[\]<>,:;&*=+\-|!?])\s*', r'\1', s)
    return s


ATTR_RE = re.compile(r'#!?\[')


def strip_attrs(clean_hdr):
    """remove #[...] groups from a (blanked) header."""
    out = []
    i = 0
    while i < len(clean_hdr):
        m = ATTR_RE.match(clean_hdr, i)
        if m:
            j = match_close(clean_hdr, m.end() - 1)
            i = j + 1
        else:
            out.append(clean_hdr[i])
            i += 1
    return ''.join(out)


VIS_RE = re.compile(r'^\s*pub(\s*\([^)]*\))?\s+')


class Item:
    __slots__ = ('kind', 'name', 'hdr_norm', 'start', 'hdr_start', 'body_open', 'end', 'src', 'clean')

    def text(self):
        return self.src[self.start:self.end]

    def header(self):
        """header text without attrs/doc (from keyword to just before '{' or ';')"""
        stop = self.body_open if self.body_open is not None else self.end - 1
        return self.src[self.hdr_start:stop]

    def body(self):
        if self.body_open is None:
            raise LostAnchor('item %s has no body' % self.name)
        return self.src[self.body_open:match_close(self.clean, self.body_open) + 1]

    def interior(self):
        if self.body_open is None:
            raise LostAnchor('item %s has no body' % self.name)
        return (self.body_open + 1, match_close(self.clean, self.body_open))


def classify(hdr):
    """hdr: blanked header w/o attrs.  returns (kind, name, normalised header)"""
    h = hdr.strip()
    h = VIS_RE.sub('', h)
    hn = norm_ws(h)
    m = re.match(r'(?:(?:default|const|async|unsafe|open|closed|uninterp|broadcast|spec|proof|exec|axiom|tracked|ghost|group)\s+|spec\s*\([^)]*\)\s*)*(?:extern\s+"[^"]*"\s+)?fn\s+([A-Za-z_]\w*)', h)
    if m:
        return 'fn', m.group(1), hn
    m = re.match(r'(?:unsafe\s+)?impl\b', h)
    if m:
        g = norm_ws(strip_generics(h))
        g = re.sub(r'\bwhere\b.*$', '', g).strip()
        return 'impl', g[len('impl'):].strip() if g.startswith('impl') else g, hn
    m = re.match(r'(?:exec|spec|proof)\s+const\s+([A-Za-z_]\w*)', h)
    if m:
        return 'vconst', m.group(1), hn
    for kw in ('mod', 'struct', 'enum', 'trait', 'union', 'type', 'static', 'const'):
        m = re.match(r'(?:unsafe\s+)?' + kw + r'\s+(?:mut\s+)?([A-Za-z_]\w*)', h)
        if m:
            return kw, m.group(1), hn
    m = re.match(r'([A-Za-z_][\w:]*)\s*!', h)
    if m:
        return 'macro', m.group(1), hn
    if h.startswith('use ') or h.startswith('extern '):
        return 'use', '', hn
    return 'other', '', hn


def items(src, clean, lo, hi):
    """yield the items directly inside clean[lo:hi]"""
    i = lo
    while i < hi:
        # skip whitespace
        while i < hi and clean[i].isspace():
            i += 1
        if i >= hi:
            break
        start = i
        # find the real start of the item in src (doc comments were blanked, so
        # walk back over blanked comment lines is unnecessary: we start at the
        # first non-space *clean* char; doc comments before it are dropped)
        j = i
        body_open = None
        while j < hi:
            ch = clean[j]
            if ch in '([':
                j = match_close(clean, j) + 1
                continue
            if ch == '{':
                body_open = j
                break
            if ch == ';':
                break
            j += 1
        hdr_clean = clean[start:j]
        hdr_noattr = strip_attrs(hdr_clean)
        kind, name, hn = classify(hdr_noattr)
        if body_open is not None and kind in ('const', 'static', 'type', 'use', 'other'):
            # e.g. `const X: T = Foo { .. };` -> ends at ';'
            k = match_close(clean, body_open) + 1
            while k < hi:
                ch = clean[k]
                if ch in OPEN:
                    k = match_close(clean, k) + 1
                    continue
                if ch == ';':
                    break
                k += 1
            end = k + 1
            body_open = None
        elif body_open is not None:
            end = match_close(clean, body_open) + 1
            if kind == 'macro':
                k = end
                while k < hi and clean[k] in ' \t':
                    k += 1
                if k < hi and clean[k] == ';':
                    end = k + 1
        else:
            end = j + 1
        it = Item()
        it.kind, it.name, it.hdr_norm = kind, name, hn
        it.start = start
        # hdr_start: position after attributes
        # find offset of first non-attr char
        k = start
        while True:
            while k < end and clean[k].isspace():
                k += 1
            m = ATTR_RE.match(clean, k)
            if m:
                k = match_close(clean, m.end() - 1) + 1
            else:
                break
        it.hdr_start = k
        it.body_open = body_open
        it.end = end
        it.src = src
        it.clean = clean
        yield it
        i = end


class Source:
    def __init__(self, path):
        self.path = path
        self.src = open(path).read()
        self.clean = blank(self.src)

    def find(self, path_elems):
        """path_elems: list like ['impl Ipv4Packet', 'fn get_version'] or
        ['mod state', 'impl TracerState', 'fn new'].  Returns Item."""
        lo, hi = 0, len(self.src)
        it = None
        for depth, elem in enumerate(path_elems):
            elem = elem.strip()
            nth = None
            m = re.match(r'^(.*)#(\d+)$', elem)
            if m:
                elem, nth = m.group(1).strip(), int(m.group(2))
            kind, _, rest = elem.partition(' ')
            rest = rest.strip()
            cands = []
            for cand in items(self.src, self.clean, lo, hi):
                if cand.kind != kind:
                    continue
                if kind == 'impl':
                    want = norm_ws(strip_generics(rest)) if '<' not in rest else None
                    if want is not None:
                        if cand.name == want:
                            cands.append(cand)
                    else:
                        # compare with generics retained
                        h = re.sub(r'^(unsafe )?impl', '', cand.hdr_norm)
                        h = re.sub(r'\bwhere\b.*$', '', h)
                        # drop leading generic parameter list of the impl itself
                        if h.startswith('<'):
                            d = 0
                            for k, ch in enumerate(h):
                                if ch == '<':
                                    d += 1
                                elif ch == '>' and h[k - 1] != '-':
                                    d -= 1
                                    if d == 0:
                                        h = h[k + 1:]
                                        break
                        if norm_ws(h) == norm_ws(rest):
                            cands.append(cand)
                elif cand.name == rest:
                    cands.append(cand)
            if nth is not None:
                if len(cands) < nth:
                    raise LostAnchor('%s: %s: occurrence #%d not found (%d candidates)' % (self.path, ' :: '.join(path_elems), nth, len(cands)))
                cands = [cands[nth - 1]]
            if len(cands) != 1:
                raise LostAnchor('%s: %s: element %r matched %d items' % (self.path, ' :: '.join(path_elems), elem, len(cands)))
            it = cands[0]
            if depth + 1 < len(path_elems):
                lo, hi = it.interior()
        return it


def fn_signature_norm(hdr, is_template=False):
    """normalise a fn header for comparison: drop visibility, attrs, result
    binder `(r: T)` (template side), where-clause spacing."""
    h = strip_attrs(hdr)
    h = VIS_RE.sub('', h.strip())
    h = re.sub(r'\s+', ' ', h).strip()
    if is_template:
        # -> (name: T)  ==>  -> T
        m = re.search(r'->\s*\(\s*[a-z_]\w*\s*:\s*', h)
        if m:
            # find the matching ')' of that '('
            p = h.index('(', m.start() + 2)
            q = match_close(h, p)
            inner = h[m.end():q]
            h = h[:m.start()] + '-> ' + inner + h[q + 1:]
    h = norm_ws(h)
    # `mut` on by-value params is not part of the type
    h = re.sub(r'\bmut ([a-z_]\w*):', r'\1:', h)
    h = re.sub(r',\)', ')', h)
    return h
