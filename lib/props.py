"""per-property configuration: which units / harnesses decide it"""

COMMON_ASSUMPTIONS = [
    'Verus 0.2026.09.13 + Z3, Kani 0.68 + CBMC 6.11 and rustc are trusted',
    'the extractor (lib/vx.py, rewrites T1-T8 listed per function under coverage.functions_under_contract[].rewrites) preserves the meaning of the pasted bodies; build/<unit>.diff shows every changed line',
    'trusted shims for std functions carry assumed contracts (listed in coverage.trusted_base)',
    'exec arithmetic is machine arithmetic checked for overflow by Verus; spec integers are mathematical; usize is 64 bit',
    'sockets, kernel, clock, tracing, parking_lot, socket2/nix FFI, Windows/macOS cfg branches are outside the verified code',
]

NOT_APPLICABLE = {
    'C17': 'TUI rendering (ratatui layout, format!/i18n strings, HashMap indexing on a cloned State, resolver threads) is not readable by Verus and Kani cannot build symbolic State/TuiApp; no contract within reach decides "never crashes" for the render path.',
    'C18': 'privacy is a property of rendered text built inline in render functions from formatted strings; no contract on those functions is expressible with the installed verifiers.',
    'C20': 'schedule property over threads sharing parking_lot::RwLock<State>: Kani has no thread support and Verus reasons about locks only through its own vstd::rwlock permission types, which the real code does not use (rewriting onto them would be proving a model).',
}
for _p in ('C01','C02','C03','C04','C05','C06','C07','C08','C09','C10','C11','C12','C14','C15','C16','C19'):
    NOT_APPLICABLE[_p] = 'check under construction in this session (see DESIGN.md section 3 for the planned contracts); not claimed until its obligations are discharged by bin/check'

PROPS = {
    'C13': {
        'level': 'proof',
        'technique': 'Verus contracts on the real checksum functions (loop invariants, RFC 1071 spec function, fold/verify lemmas)',
        'level_text': 'Unbounded deductive proof: every public checksum function of trippy-packet/src/checksum.rs equals the RFC 1071 one\'s-complement checksum (with pseudo-header) of the data with the checksum field zeroed, for all data of length <= 65535 and all addresses; lemma: inserting the result makes the datagram sum fold to 0xFFFF.',
        'level_note': 'Trusted: Verus/Z3; shims u16::from_be_bytes, <[u8]>::try_into, Ipv4Addr::octets, ipv6_word_sum (iterator sum of segments); precondition len <= 65535.',
        'units': ['pkt_checksum'],
        'kani': {},
        'assumptions': [
            'data.len() <= 65535 (callers pass <= 1024-byte buffers); beyond that the u32 accumulator can overflow',
            'Ipv4Addr::octets / Ipv6Addr::segments are uninterpreted (spec_octets4 / spec_segments6); ipv6_word_sum (iterator adapters) is a trusted shim: sum of the 8 segments',
        ],
        'not_applicable_parts': [],
        'explanation': 'RFC 1071 checksum functions proved equal to a spec written from the RFC; verification lemma (sum with checksum inserted folds to 0xFFFF).',
    },
}
