"""per-property configuration: which units / harnesses decide it"""

COMMON_ASSUMPTIONS = [
    'Verus 0.2026.09.13 + Z3, Kani 0.68 + CBMC 6.11 and rustc are trusted',
    'the extractor (lib/vx.py, rewrites T1-T8 listed per function under coverage.functions_under_contract[].rewrites) preserves the meaning of the pasted bodies; build/<unit>.diff shows every changed line',
    'trusted shims for std functions carry assumed contracts (listed in coverage.trusted_base)',
    'exec arithmetic is machine arithmetic checked for overflow by Verus; spec integers are mathematical; usize is 64 bit',
    'sockets, kernel, clock, tracing, parking_lot, socket2/nix FFI, Windows/macOS cfg branches are outside the verified code',
]

NOT_APPLICABLE = {
    'C17': 'TUI rendering (ratatui layout, format!/i18n strings, HashMap indexing on a cloned State, resolver threads) is not readable by Verus and Kani cannot build symbolic State/TuiApp; no contract within reach decides "never crashes" for the render path.',
    'C18': 'privacy is a property of rendered text built inline in render functions from formatted strings; no contract on those functions is expressible with the installed verifiers.',
    'C20': 'schedule property over threads sharing parking_lot::RwLock<State>: Kani has no thread support and Verus reasons about locks only through its own vstd::rwlock permission types, which the real code does not use (rewriting onto them would be proving a model).',
}

import re as _re


def _pkt_harness_names():
    import sys, os
    sys.path.insert(0, os.path.join(os.path.dirname(os.path.dirname(os.path.abspath(__file__))), 'specs'))
    from rfc_fields import VIEWS
    fields, nopanic = [], []
    for v in VIEWS:
        fam = v['crate_mod'].split('::')[0]
        pre = {'icmpv4': 'icmp4_', 'icmpv6': 'icmp6_'}.get(fam, '')
        for f in v['fields']:
            fields.append('k_%s%s_%s' % (pre, v['name'], f['name']))
        nopanic.append('k_%s%s_nopanic' % (pre, v['name']))
    return fields, nopanic


PKT_FIELD_HARNESSES, PKT_NOPANIC_HARNESSES = _pkt_harness_names()


def mirrors_for(unit, qual, kind='body'):
    """Kani mirror harnesses of a Verus-verified function, used to arbitrate a
    failed Verus obligation and to obtain a concrete counterexample.
    kind 'body': overflow / index / call-precondition failure -> no-panic harnesses qualify;
    kind 'post' / 'ghost': only harnesses that state the same postcondition qualify."""
    post = kind in ('post', 'ghost')
    if unit == 'pkt_views':
        parts = qual.split('::')
        pre = 'icmp4_' if parts[0] == 'icmpv4' else ('icmp6_' if parts[0] == 'icmpv6' else '')
        if len(parts) >= 2:
            view, meth = parts[-2], parts[-1]
            if meth == 'split':
                return ['k_split_contract']
            if meth in ('split_payload_extension', 'payload', 'extension') and view in ('TimeExceededPacket', 'DestinationUnreachablePacket'):
                return ['k_%s%s_split_contract' % (pre, view)] + ([] if post else ['k_%s%s_nopanic' % (pre, view)])
            if meth == 'ipv4_options_length':
                return [] if post else ['k_Ipv4Packet_nopanic']
            if view.endswith('Iter'):
                c = 'k_extobj_iter_contract' if view.startswith('ExtensionObject') else 'k_mpls_iter_contract'
                n = 'k_ExtensionsPacket_nopanic' if view.startswith('ExtensionObject') else 'k_MplsLabelStackPacket_nopanic'
                return [c] if post else [c, n]
            if view == 'Buffer':
                return ['k_buffer_get_bytes_2', 'k_UdpPacket_source', 'k_Ipv4Packet_version']
            m = _re.match(r'(get|set)_(\w+)$', meth)
            res = []
            if m and ('k_%s%s_%s' % (pre, view, m.group(2))) in PKT_FIELD_HARNESSES:
                res.append('k_%s%s_%s' % (pre, view, m.group(2)))
            if not post and ('k_%s%s_nopanic' % (pre, view)) in PKT_NOPANIC_HARNESSES:
                res.append('k_%s%s_nopanic' % (pre, view))
            return res
    if unit == 'pkt_checksum':
        name = qual.split('::')[-1]
        if name == 'finalize_checksum':
            return ['k_finalize_checksum_contract']
        if name in ('icmp_ipv4_checksum',):
            return ['k_checksum_verifies_icmp4']
        if name in ('udp_ipv4_checksum', 'ipv4_checksum', 'ipv4_word_sum'):
            return ['k_checksum_verifies_udp4']
        if name == 'tcp_ipv4_checksum':
            return ['k_checksum_verifies_tcp4']
        if name in ('udp_ipv6_checksum', 'ipv6_checksum'):
            return ['k_checksum_verifies_udp6']
        if name == 'icmp_ipv6_checksum':
            return ['k_checksum_verifies_udp6']
        if name in ('sum_be_words', 'checksum', 'ipv4_header_checksum'):
            return ['k_checksum_verifies_icmp4', 'k_checksum_verifies_ipv4hdr', 'k_checksum_verifies_udp4']
    if unit == 'core_net_build':
        fam = '6' if '::ipv6::' in qual else '4'
        name = qual.split('::')[-1]
        if post:
            return []
        if name in ('extract_udp_packet', 'udp_payload_has_magic_prefix'):
            return ['k%s_recv_nopanic_udp' % fam]
        if name == 'extract_tcp_packet':
            return ['k%s_recv_nopanic_tcp' % fam]
        if name == 'extract_echo_request':
            return ['k%s_recv_nopanic_icmp' % fam]
        if name == 'extract_probe_proto_resp':
            return ['k%s_recv_nopanic_udp' % fam, 'k%s_recv_nopanic_tcp' % fam, 'k%s_recv_nopanic_icmp' % fam]
    return []


# harnesses that take minutes and tens of GB: never used as arbitration mirrors in the quick tier
HEAVY_HARNESSES = set(['k_checksum_verifies_icmp6', 'k_checksum_verifies_tcp4', 'k4_recv_nopanic_icmp', 'k4_recv_nopanic_udp', 'k4_recv_nopanic_tcp', 'k6_recv_nopanic_icmp', 'k6_recv_nopanic_udp', 'k6_recv_nopanic_tcp',
                       'k4_roundtrip_icmp', 'k4_roundtrip_udp', 'k4_dispatch_udp_28', 'k4_dispatch_udp_33', 'k4_dispatch_icmp_33', 'k6_dispatch_icmp_53', 'k6_dispatch_udp_dublin'])

PROPS = {
    'C04': {
        'level': 'proof',
        'technique': 'Verus: every accessor of every packet view free of panics/overflow for any buffer >= minimum size; Kani no-panic harnesses',
        'level_text': 'Layer (a): for every public accessor of every packet view Verus discharges every slice index, range, copy length and arithmetic-overflow obligation under the single precondition len >= minimum size (unbounded buffer length), and termination/progress of the two extension iterators. Layer (b) (receive path of trippy-core) is decided by Kani harnesses on the real functions.',
        'level_note': 'Trusted: shims (from_be_bytes, to_be_bytes, address conversions), Buffer::get_bytes contract (Kani-discharged). Bounded stand-ins are labelled and not counted. The receive-side decode of trippy-core (extract_probe_resp, extract_probe_proto_resp, extract_*, recv_tcp_socket) is verified for every buffer length in unit core_net_build; Extensions::try_from (iterator adapters) and recv_icmp_probe\'s slice of the read length (trusting Socket::read <= buffer length) are outside, as is platform/unix.rs. The ArrayVec of pending TCP probes is modelled (D-C16b).',
        'units': ['pkt_views', 'core_strategy', 'core_net_build'],
        'kani': {'quick': PKT_NOPANIC_HARNESSES,
                 'thorough': PKT_NOPANIC_HARNESSES + ['k6_recv_nopanic_icmp', 'k6_recv_nopanic_tcp']},
        'assumptions': ['setters additionally require a mutable view and (set_payload) a payload that fits: caller obligations, discharged at the call sites in unit core_net_build'],
        'explanation': 'no-panic obligations of packet views',
    },
    'C14': {
        'level': 'proof',
        'technique': 'Verus contracts on extension_splitter::split, split_payload_extension (x4) and the two extension iterators against an RFC 4884/4950 spec; lemmas for disjointness and recovery',
        'level_text': 'split() is proved equal to a spec function written from RFC 4884 (compliant length attribute / legacy 128-octet convention) for every length and payload; lemmas: datagram and extension are disjoint in-bounds sub-ranges, compliant and legacy messages are recovered unchanged; the four split_payload_extension functions scale the length attribute by 4 (ICMPv4) / 8 (ICMPv6) for the whole range 0..=255; ExtensionObjectIter::next / MplsLabelStackIter::next yield an item iff the object header and declared length fit (resp. until the S bit), advance by the declared length / 4 octets and make progress.',
        'level_note': 'Trusted: shims as C12. Extensions::try_from (iterator adapters in trippy-core) is a bounded Kani stand-in.',
        'units': ['pkt_views'],
        'kani': {'quick': ['k_split_contract', 'k_extobj_iter_contract', 'k_mpls_iter_contract', 'k_ExtensionsPacket_nopanic', 'k_MplsLabelStackPacket_nopanic',
                           'k_icmp4_TimeExceededPacket_split_contract', 'k_icmp4_DestinationUnreachablePacket_split_contract', 'k_icmp6_TimeExceededPacket_split_contract', 'k_icmp6_DestinationUnreachablePacket_split_contract']},
        'assumptions': [],
        'explanation': 'ICMP extension parsing',
    },
    'C01': {
        'level': 'proof',
        'technique': 'Verus contracts on every link of the chain next_probe -> do_send -> recv_response/complete_probe -> publish_trace -> StateUpdater::apply/update_for_probe; composition across loop iterations argued in DESIGN.md',
        'level_text': 'Each link between the network and the published statistics is proved: a probe handed to the network is recorded Awaited with its ttl/sequence/round/send time (whole-buffer frame); only a genuine response completes exactly that slot with responder address, receive time and ICMP type copied unchanged; transient send failures mark the slot Failed; publish_trace publishes exactly the issued prefix of the buffer; update_for_probe adds exactly one sent (plus one received with rtt = receive - send for Complete, plus one failed for Failed, nothing for NotSent/Skipped) to exactly the hop of the probe\'s ttl.',
        'level_note': 'The composition over the iterations of Strategy::run and over rounds is by the data-structure invariants (TracerState::wf, FlowState::wf) and is not mechanised as one theorem. Also under contract since the net-layer units were written (unit core_net_build): the decode of a received datagram into a Response (extract_probe_resp: kind, code, responder; recv_tcp_socket: socket state -> TcpReply / TcpRefused / TimeExceeded), Channel::recv_probe (a response read from the receive socket is never discarded; the ICMP socket is only read when no TCP attempt produced a response) and StateUpdater::apply (per-hop totals are the sums over the round). Outside: real sockets, kernel, SystemTime, Channel::recv_tcp_sockets / recv_icmp_probe glue (iterator adapters, io::ErrorKind).',
        'units': ['core_strategy', 'core_state', 'core_net_build'],
        'assumptions': ['floating-point statistics are abstracted (T6)'],
        'explanation': 'probe outcome bookkeeping',
    },
    'C05': {
        'level': 'proof',
        'technique': 'Verus per-hop invariant (hop_wf) preserved by update_for_probe/apply; exact integer aggregation clauses; float statistics abstracted',
        'level_text': 'For every round and every probe: received+failed <= sent, forward+backward loss <= sent-received-failed, address counts sum to received, best <= worst, last/best/worst present iff something was received, sample history newest-first and never longer than max_samples; sent/received/failed counters, last (rtt = receive - send), best = min, worst = max and the last-probe details are updated exactly as a recomputation from the round would. Holds after any history because it is an inductive invariant of FlowState.',
        'level_note': 'NOT covered (not applicable within C05): avg, stddev, jitter (javg, jinta, jmax), loss percentages - floating point recurrences, abstracted by havoc shims (T6). is_forward_loss (iterator adapters: skip_while / peekable / all) cannot be read by Verus: it carries the ASSUMED contract r == spec_forward_loss(probes, ttl) (the documented meaning, written as a spec predicate), checked against the real function only by the BOUNDED Kani harnesses k_is_forward_loss_contract (3 slots, ttl 1,2,3) and k_is_forward_loss_contract_sym (4 slots, each ttl any of 1..=6 in any order); its caller update_for_probe is PROVED against that contract: an awaited probe after the forward-loss hop of the round counts as backward loss, the first awaited hop for which spec_forward_loss holds counts as forward loss and sets the per-round flag, any other awaited hop counts as neither. IndexMap is modelled by ghost counts (addrs_incr shim). The millisecond / percentage accessors (last_ms, best_ms, worst_ms, jitter_ms, jmax_ms, avg_ms, loss_pct) are checked by BOUNDED Kani harnesses against an independently written conversion on a grid of durations (symbolic IEEE-754 conversion of 32-bit values timed out in CBMC): labelled bounded, not counted as proved.',
        'units': ['core_state'],
        'kani': {'quick': ['k_is_forward_loss_contract', 'k_is_forward_loss_contract_sym', 'k_hop_ms_accessors', 'k_hop_avg_and_loss']},
        'assumptions': ['fewer than 2^48 rounds (usize counters do not overflow)', 'Duration addition does not overflow'],
        'not_applicable_parts': ['floating-point recurrences: stddev (mean / m2), javg, jinta and the jitter update inside update_for_probe'],
        'explanation': 'per-hop statistics',
    },
    'C10': {
        'level': 'proof',
        'technique': 'Verus inductive invariant on FlowState (hop table) under the round contract round_wf, which is proved as the postcondition of Strategy::publish_trace from the TracerState invariant',
        'level_text': 'publish_trace reports largest_ttl = target distance if known, 0 if nothing answered, else min(last sent ttl, farthest answer + 1), and the published round satisfies round_wf (ttls in 1..=254, a probe at or below the reported length exists); under round_wf, apply preserves the hop-table invariant (254 hops, lowest-1 <= highest <= 254, highest_for_round <= highest, each probed hop carries ttl = index+1), so hops() returns exactly hops[lowest-1..highest] (or empty) and target_hop/is_target/is_in_round never index out of range - including first-ttl > 1 and before any response.',
        'level_note': 'Synthetic rounds that violate round_wf are outside the contract (stated as the precondition). State (HashMap<FlowId, FlowState>) accessors index by flow id: covered under C15 / not here.',
        'units': ['core_strategy', 'core_state'],
        'assumptions': [],
        'explanation': 'hop table',
    },
    'C16': {
        'level': 'proof',
        'technique': 'Verus contracts on cfg_layer*/validate_* (TUI), Builder::build against the strategy\'s own precondition cfg_ok, the Tracer constructor chain, Channel::connect / send_probe / dispatch_tcp_probe',
        'level_text': 'The three layering functions return the CLI value if given, else the file value, else the default, for every type and value. Builder::build returns Ok only for configurations satisfying cfg_ok - textually the precondition under which unit core_strategy proves that probe_data never reaches unimplemented!() and unit core_state proves ttl-1 indexing safe - accepts every such configuration, and reports everything else as Error::BadConfig; a given source address must be of the target\'s address family (the precondition under which Channel::connect\'s unreachable!() is unreachable, unit core_net_build). The constructor chain Tracer::new -> TracerInner::new and make_strategy_config / make_channel_config copy every option unchanged; Channel::connect hands them unchanged to the Ipv4 / Ipv6 packet builders and creates a send socket exactly for ICMP and UDP; the command-line range checks (ttl, max-inflight, packet size, source port) accept exactly what the core can run; Channel::send_probe cannot panic whatever was sent before (the table of pending TCP connections is bounded).',
        'level_note': 'NOT covered (not applicable within C16): that each of the ~90 options in TrippyConfig::build_config is wired to the right (args.X, file.X, DEFAULT_X) triple - clap/serde generated types, anyhow, strings. Trusted: the ArrayVec model (push panics when full, from the crate documentation), platform::startup / Ipv4ByteOrder::for_address declarations, SourceAddr::discover (returns an address of the target\'s family: socket calls, not verified), Tracer::run_internal (RwLock / closures) which connects these verified pieces.',
        'units': ['tui_layer', 'core_builder', 'core_strategy', 'core_net_build'],
        'assumptions': [],
        'not_applicable_parts': ['option wiring in TrippyConfig::build_config'],
        'explanation': 'option precedence and builder validation',
    },
    'C19': {
        'level': 'proof',
        'technique': 'Verus contracts on nat_status, update_for_probe (checksum carry-forward), StateUpdater::new, ProtocolStrategyResponse::from',
        'level_text': 'nat_status returns Detected iff the quoted checksum differs from the previous responding hop\'s (or from the expected checksum for the first responding hop) and never NotApplicable; update_for_probe stores the result and carries the actual checksum forward exactly for Complete probes that carry both checksums, leaves last_nat_status and the carry untouched otherwise; the carry starts empty each round; checksums are present exactly for Dublin over IPv4/UDP, so every other configuration stays NotApplicable.',
        'level_note': 'That the expected checksum equals the checksum of the probe as sent (calc_udp_checksum vs dispatch) is part of C11 (Kani harness on the real builders).',
        'units': ['core_state', 'core_strategy', 'core_net_build'],
        'assumptions': [],
        'explanation': 'NAT detection',
    },
    'C02': {
        'level': 'proof',
        'technique': 'Verus contracts on probe_*_data, ProtocolStrategyResponse::from, validate against tables written from the property, plus round-trip / rejection lemmas; Kani round trip of real bytes through dispatch -> ICMP quotation -> recv_icmp_probe',
        'level_text': 'probe_icmp_data/probe_udp_data/probe_tcp_data are proved equal to the carrier table spec_probe_fields for every supported configuration (and never reach unimplemented!()); ProtocolStrategyResponse::from recovers the sequence from exactly the prescribed field (spec_recover_sequence); validate accepts exactly quotations with this tracer\'s destination, fixed port(s) and, for Dublin/IPv6, the marker. Lemma L1: for every supported configuration, every issuable sequence and round, the quotation of the probe is validated, passes the trace-id check and yields that sequence; L2: other destination, other fixed port or missing marker is rejected. The wire map assumed by L1 (ports->ports, IP id->identifier, UDP checksum field->actual checksum, UDP length->payload length) is checked on the real builders/parsers by Kani harnesses (bounded).',
        'level_note': 'Both directions are proved in unit core_net_build for both address families and every size: what dispatch_* hands to the socket (ports, identification, payload length / marker, Paris checksum field, TCP source port) and what extract_probe_proto_resp / extract_* / recv_tcp_socket read back from a quotation or socket state (RFC 768 / 792 / 4443 / 9293 positions); the composition encode -> quote -> decode is the lemma pair in unit core_strategy over spec functions (the Kani round-trip harnesses over real bytes were intractable and are in no tier). The real quoting router is outside.',
        'units': ['core_strategy', 'core_net_build'],
        'kani': {'quick': [], 'thorough': []},
        'assumptions': [],
        'explanation': 'probe identity round trip',
    },
    'C11': {
        'level': 'proof',
        'technique': 'modular Verus proof of the real packet builders of net/ipv4.rs and net/ipv6.rs against the imported contracts of the packet codec (pkt_views, pkt_checksum); Kani harnesses on the real dispatch functions with a capturing socket',
        'level_text': 'make_ipv4_packet is proved to produce, for every payload and configuration, a header with version 4, IHL 5, the configured TOS, total length 20+payload in network order, the given identification, DF set / offset 0, the probe ttl, the protocol number, source and destination addresses and the payload at octet 20 (RFC 791 positions); make_udp_packet (v4 and v6): ports, length = 8+payload, payload, checksum = RFC 1071 over pseudo header and datagram; make_echo_request_icmp_packet (v4 and v6): type 8/128, code 0, identifier, sequence, pattern payload, checksum; payload-size helpers make the total size equal the configured packet size. All slice bounds of the builders are discharged at their call preconditions. The dispatch functions themselves - dispatch_icmp_probe, dispatch_udp_probe and dispatch_udp_probe_raw of both address families - are proved for EVERY packet size and configuration against RFC 791/768/792/4443 oracles over a ghost log of what is handed to Socket::send_to (datagram bytes, remote address, IPv6 hop limit): out-of-range packet sizes are rejected before anything is sent; otherwise exactly one datagram with the probe ttl / hop limit, identification, ports, the configured payload (classic), the marker + length-encoded sequence (Dublin/IPv6, under the sequence bound proved in unit core_strategy) or the sequence in the checksum field (Paris) is sent to the target.',
        'level_note': 'The codec is used through contracts proved in units pkt_views / pkt_checksum (imported, not re-verified). Trusted in the dispatch proofs: the ghost log of the Socket trait (send_to / set_unicast_hops_v6 declarations checked against the real trait), sock_send_mapped (send_to followed by the ErrorMapper closures: the error mapping is the complete Kani harness k_error_mapper_tables), first_word_be / put_magic / pattern_array / zero_array shims, the bitflags model of Flags. That the Paris datagram still verifies after the checksum/payload swap is the complete Kani harness k4_dispatch_udp_paris (C13); the Kani dispatch harnesses with concrete sizes remain as cross-checks of the Verus proofs through an independent back end. The unprivileged UDP paths (dispatch_udp_probe_non_raw) and dispatch_tcp_probe use sockets created inside the call: their set-up (bind to the probe\'s source port, ttl / tos / hop limit, connect or send to the destination port, exactly the configured payload) is proved against ghost set-up state of the Socket trait (bind / connect through the sock_bind_mapped / sock_connect_mapped shims). Outside: what the operating system does with those sockets (TCP SYN contents, kernel-built IP/UDP headers, the IPv4 header checksum).',
        'units': ['core_net_build', 'pkt_views', 'pkt_checksum', 'core_builder'],
        'kani': {'quick': ['k4_dispatch_icmp_28'],
                 'thorough': ['k4_dispatch_icmp_28', 'k4_dispatch_icmp_33', 'k4_dispatch_udp_paris']},
        'assumptions': ['Linux target: Ipv4ByteOrder::Host is compiled out'],
        'explanation': 'probe wire format',
    },
    'C15': {
        'level': 'proof',
        'technique': 'Verus contract on State::update_from_round / update_trace_flow over ghost views of the registry and the per-flow map, with the registry contract imported; bounded Kani stand-ins for flows.rs',
        'level_text': 'State::update_from_round is proved to keep identifiers dense from 1 and stable, never to exceed max_flows, to count every round for the default flow, to attribute a round that matches a registered flow to the first such flow (its round count +1, round_flow_id set) also once max_flows is reached, and to touch no other flow. The registry operations themselves (Flow::check / merge / from_hops, FlowRegistry::register / contains_match) are iterator-adapter code: bounded Kani stand-ins (flows of 1-2 entries with concrete lengths, one registered flow).',
        'level_note': 'Trusted in the Verus unit: the contract of FlowRegistry::register / contains_match (as checked bounded by Kani), HashMap entry shim, FlowState::update_from_round contract (unit core_state), and round_flow(): the inline iterator chain that builds the round\'s flow is abstracted in the Verus unit; its position <-> ttl contract is checked bounded by Kani on the statement lifted verbatim from State::update_from_round (k_round_flow_positions_*; D-C15b was found this way and fixed). Bounded stand-ins are not counted as proved.',
        'units': ['core_state_flows', 'core_state'],
        'kani': {'quick': ['k_flow_check_contract', 'k_flow_merge_2_1', 'k_flow_merge_1_2', 'k_flow_merge_2_2', 'k_flow_from_hops_contract', 'k_registry_register_2_1', 'k_registry_register_2_2', 'k_registry_contains_match_contract', 'k_round_flow_positions_2'],
                 'thorough': ['k_flow_check_contract', 'k_flow_merge_2_1', 'k_flow_merge_1_2', 'k_flow_merge_2_2', 'k_flow_from_hops_contract', 'k_registry_register_2_1', 'k_registry_register_2_2', 'k_registry_contains_match_contract', 'k_round_flow_positions_2', 'k_round_flow_positions_1']},
        'assumptions': [],
        'explanation': 'flow attribution',
    },
    'C03': {
        'level': 'proof',
        'technique': 'Verus contracts on recv_response / complete_probe / in_round / check_trace_id / validate with a whole-state frame; TracerState invariant',
        'level_text': 'Strategy::recv_response is proved, for an abstract Network and any received response, to leave the whole TracerState (every slot, target_found, target_ttl, max_received_ttl, received_time) unchanged unless the response validates, carries this tracer\'s (or the zero) trace id, names a sequence issued in the current round and that probe is still Awaited; then exactly that slot becomes Complete. in_round is the 512-window, check_trace_id rejects foreign non-zero ids (two tracers with distinct non-zero ids: non-interference is this contract instantiated). advance_round moves the window forward or restarts at the initial sequence.',
        'level_note': 'Trusted: shims (SystemTime, Duration), derive(Clone)/derive_more models, abstract Network trait with ghost observations. Not covered: that the CLI assigns distinct non-zero ids (pid + i can wrap to 0; iterator-adapter code in trippy-tui). Previous-round separation after a sequence wrap is decided under C07.',
        'units': ['core_strategy', 'core_net_build'],
        'assumptions': ['the usize round counter does not overflow (assume in Strategy::run, 2^64 rounds)'],
        'explanation': 'response acceptance gate',
    },
    'C06': {
        'level': 'proof',
        'technique': 'Verus contract on send_request over a ghost send log of the abstract Network; step contracts of next_probe / reissue_probe / advance_round; target_ttl evolution in complete_probe',
        'level_text': 'send_request is proved to hand probes to the network exactly when the policy written from the property allows (target not found in this round, ttl <= max_ttl, ttl <= target distance when known, else fewer than max_inflight hops beyond the farthest hop answered in this round, measured from first_ttl-1 when nothing has answered), each with the current ttl (re-issues keep it) and consecutive sequence numbers; next_probe uses ttl then increments it, reissue_probe reuses ttl-1, advance_round restarts at first_ttl.',
        'level_note': 'Trusted: as C03. The order of calls inside Strategy::run (send before publish in every iteration) is read off the verified loop body, not stated as a temporal property.',
        'units': ['core_strategy', 'core_builder'],
        'assumptions': [],
        'explanation': 'probe scheduling discipline',
    },
    'C07': {
        'level': 'proof',
        'technique': 'Verus data-structure invariant on TracerState (sequence allocator + 512-slot buffer) preserved by every operation; separation lemmas',
        'level_text': 'The invariant wf (initial <= round_sequence <= sequence, at most 512 sequences per round, round_sequence < max_sequence, hence sequence <= 65534, every issued slot holds a probe of this round with sequence round_sequence+i) is established by new and preserved by next_probe, reissue_probe, fail_probe, complete_probe, advance_round, send_request, recv_response, update_round; every buffer index and every u16/u8 operation in these functions is proved in range; an exhausted TCP round yields Error::InsufficientCapacity; lemmas: a sequence of the preceding round is not accepted in the current one.',
        'level_note': 'Trusted: as C03. The Dublin/IPv6 payload slice bound in the real dispatch_udp_probe_raw is discharged by the loop-free Kani harness k6_dublin_payload_fits over every sequence the allocator can issue in that regime (sequence - initial <= 765).',
        'units': ['core_strategy', 'core_builder', 'core_net_build'],
        'kani': {'quick': ['k6_dublin_payload_fits']},
        'assumptions': [],
        'explanation': 'sequence allocator invariant',
    },
    'C08': {
        'level': 'proof',
        'technique': 'Verus contract on update_round / exceeds / publish_trace with the clock as an arbitrary value',
        'level_text': 'For every value the clock can return, update_round publishes and advances the round exactly when duration > max, or target found and duration > min and more than grace since the last response; otherwise the state is unchanged. The published reason is TargetFound iff the target answered in the round. exceeds() is the saturating difference test.',
        'level_note': 'Not applicable within C08: "never held open longer than max + one read timeout" and "next round starts at the instant of publication" are wall-time statements across loop iterations and blocking reads; contracts give only the step fact. Trusted: SystemTime/Duration shims (duration_since(..).unwrap_or_default() = saturating difference; Duration ordering).',
        'units': ['core_strategy', 'core_builder'],
        'assumptions': [],
        'not_applicable_parts': ['wall-time bounds across loop iterations (max + one read timeout; start of next round)'],
        'explanation': 'round completion policy',
    },
    'C09': {
        'level': 'proof',
        'technique': 'Verus contracts on run (loop invariant on the round counter), finished, do_send, send_request (TCP re-issue loop with invariant and decreases), fail_probe, reissue_probe',
        'level_text': 'finished is exactly round >= n; run\'s loop invariant keeps round <= n and success is returned only with round == n, every round increment being one publish_trace+advance_round (update_round contract), i.e. rounds 0..n-1; do_send turns Error::ProbeFailed into Ok with exactly that slot Failed and returns every other error unchanged; the TCP AddressInUse loop marks the abandoned slot Skipped and re-issues with the next sequence and the same ttl, and terminates (decreases 512 - round size); errors propagate through `?`.',
        'level_note': 'Partial correctness: termination of run depends on wall time (exec_allows_no_decreases_clause). ErrorMapper::{in_progress, addr_in_use, probe_failed} are proved by the loop-free Kani harness k_error_mapper_tables over every errno 1..=133 and all four IoError variants; Strategy::run keeps `no fatal network error seen` as a loop invariant over a ghost observation of the Network trait; Channel::recv_probe passes receive errors on unchanged. Not covered: the would-block / fatal split inside recv_icmp_probe (io::ErrorKind match; a Kani harness for it was intractable), TracerInner::run/handle_error writing the error through parking_lot::RwLock.',
        'units': ['core_strategy', 'core_net_build'],
        'kani': {'quick': ['k_error_mapper_tables']},
        'assumptions': ['the usize round counter does not overflow (assume in Strategy::run)'],
        'explanation': 'termination and failure semantics',
    },
    'C12': {
        'level': 'proof',
        'technique': 'Verus contracts on every packet-view accessor, generated from an RFC field table; Kani full-domain mirror per field',
        'level_text': 'Every get_*/set_* of every packet view is proved (Verus, any buffer length >= minimum) to read / write exactly the RFC-positioned bits: getters equal the big-endian field value, setters satisfy a whole-buffer equation (value truncated to the field width, every other bit unchanged); constructors succeed iff len >= minimum size. Each field is additionally proved bit-precisely by a loop-free Kani harness over all contents of a minimum-size buffer and all values.',
        'level_note': 'Trusted: RFC field table (specs/rfc_fields.py) as oracle; shims for from_be_bytes/to_be_bytes/Ipv{4,6}Addr conversions; Buffer::get_bytes contract (core::array::from_fn) - discharged by Kani harnesses k_buffer_get_bytes_{2,4,16}. TCP flags follow RFC 3540 (9-bit flags incl. NS), as the code documents.',
        'units': ['pkt_views'],
        'kani': {'quick': PKT_FIELD_HARNESSES + ['k_buffer_get_bytes_2', 'k_buffer_get_bytes_4', 'k_buffer_get_bytes_16']},
        'assumptions': ['read-only views: `&self` accessors cannot write (Rust type system); every setter requires is_mut(), i.e. Buffer::write on an Immutable buffer is reachable only through a violated precondition (it panics, never writes)'],
        'explanation': 'field accessors against the RFC field table',
    },
    'C13': {
        'level': 'proof',
        'technique': 'Verus contracts on the real checksum functions (loop invariants, RFC 1071 spec function, fold/verify lemmas)',
        'level_text': 'Unbounded deductive proof: every public checksum function of trippy-packet/src/checksum.rs equals the RFC 1071 one\'s-complement checksum (with pseudo-header) of the data with the checksum field zeroed, for all data of length <= 65535 and all addresses; lemma: inserting the result makes the datagram sum fold to 0xFFFF.',
        'level_note': 'Trusted: Verus/Z3; shims u16::from_be_bytes, <[u8]>::try_into, Ipv4Addr::octets, ipv6_word_sum (iterator sum of segments); precondition len <= 65535.',
        'units': ['pkt_checksum', 'core_net_build'],
        'kani': {'quick': ['k4_dispatch_udp_paris', 'k_finalize_checksum_contract', 'k_checksum_verifies_icmp4', 'k_checksum_verifies_udp4', 'k_checksum_verifies_ipv4hdr'],
                 'thorough': ['k4_dispatch_udp_paris', 'k_finalize_checksum_contract', 'k_checksum_verifies_icmp4', 'k_checksum_verifies_udp4', 'k_checksum_verifies_ipv4hdr', 'k_checksum_verifies_tcp4', 'k_checksum_verifies_udp6', 'k_checksum_verifies_icmp6']},
        'assumptions': [
            'data.len() <= 65535 (callers pass <= 1024-byte buffers); beyond that the u32 accumulator can overflow',
            'Ipv4Addr::octets / Ipv6Addr::segments are uninterpreted (spec_octets4 / spec_segments6); ipv6_word_sum (iterator adapters) is a trusted shim: sum of the 8 segments',
        ],
        'not_applicable_parts': [],
        'explanation': 'RFC 1071 checksum functions proved equal to a spec written from the RFC; verification lemma (sum with checksum inserted folds to 0xFFFF).',
    },
}
