#!/usr/bin/env python3
"""check <Cxx> [--tier quick|thorough] [--replay file]

Decides one property by contract-based deductive verification of the real
code: Engine A (Verus on mechanically extracted functions) and Engine B (Kani
on a scratch copy of the real crates).  Exit 0 / 1 (VIOLATION) / 2 (undecided:
tool limit, lost anchor, vacuity or trusted-base scan failure).
"""
import concurrent.futures as cf
import json
import os
import re
import sys
import time

HERE = os.path.dirname(os.path.abspath(__file__))
sys.path.insert(0, HERE)
import vx  # noqa: E402
import kx  # noqa: E402
import nx  # noqa: E402
import props as P  # noqa: E402
from rsrc import LostAnchor  # noqa: E402

VERIF = os.path.dirname(HERE)


def load_known():
    p = os.path.join(VERIF, 'known_findings.json')
    if not os.path.exists(p):
        return []
    return json.load(open(p)).get('findings', [])


def tag_applies(tags, prop, kind):
    """tags: list like ['C04:body', 'C12:post', 'C13']; kind in body|post"""
    for t in tags:
        name, _, k = t.partition(':')
        if name == prop and (k == '' or k == kind or (kind == 'ghost' and k == 'post')):
            return True
    return False


def fn_has_prop(f, prop):
    return any(t.partition(':')[0] == prop for t in f.props)


def failure_kind(msg):
    if 'postcondition not satisfied' in msg:
        return 'post'
    if 'assertion' in msg:
        return 'ghost'   # failed proof step (spliced ghost assertion): counts for :post and :body tags alike
    return 'body'


def span_text(unit_text_lines, line):
    if line and 1 <= line <= len(unit_text_lines):
        return unit_text_lines[line - 1].strip()
    return ''


def attribute(f, fail, prop, lines):
    """does this failure count against `prop`?  returns label or None"""
    kind = failure_kind(fail['message'])
    if kind == 'post' and fail.get('clause_line'):
        # labels inside the failed clause (a clause may span several lines and carry several labels)
        lo, hi = fail['clause_line'], fail.get('clause_end') or fail['clause_line']
        labs = [pl for n in sorted(f.clause_labels) if lo <= n <= hi for pl in f.clause_labels[n]]
        if labs:
            mine = [l for (p, l) in labs if p == prop]
            return '+'.join(mine) if mine and fn_has_prop(f, prop) else None
    if tag_applies(f.props, prop, kind):
        if kind == 'post':
            return 'post:' + re.sub(r'\s+', ' ', span_text(lines, fail.get('clause_line')))[:100]
        return 'body:' + fail['message'] + ':' + re.sub(r'\s+', ' ', span_text(lines, fail.get('line')))[:100]
    return None


def match_known(known, prop, unit, f, fail, label, lines):
    for k in known:
        if k.get('status') != 'open' or prop not in [k['property']] + k.get('also_properties', []):
            continue
        if k.get('engine', 'verus') != 'verus':
            continue
        if k.get('unit') != unit or k.get('fn') != f.qual:
            continue
        kind = failure_kind(fail['message'])
        if k.get('kind') and k['kind'] != kind:
            continue
        if kind == 'post':
            if k.get('label') and label == k['label']:
                return k
        else:
            txt = span_text(lines, fail.get('line'))
            if k.get('expr') and k['expr'] in txt and (not k.get('message') or k['message'] in fail['message']):
                return k
    return None


def run_unit(unit_name, tier):
    """build + verify + canary for one unit; returns dict"""
    t0 = time.time()
    u = vx.build(unit_name)
    allow_p = os.path.join(VERIF, 'specs', unit_name + '.trusted')
    allow = set()
    if os.path.exists(allow_p):
        allow = set(tuple(l.strip().split(' ', 1)) for l in open(allow_p) if l.strip() and not l.startswith('#'))
    new_trust = [t for t in u.trusted if tuple(t) not in allow]
    with cf.ThreadPoolExecutor(max_workers=2) as ex:
        fut_main = ex.submit(vx.run_verus, u.out, ())
        fut_can = ex.submit(vx.check_canary, u)
        res = fut_main.result()
        can = fut_can.result()
    cl = vx.classify(u, u.fns, res)
    seeds = []
    if tier == 'thorough' and not cl['tool_errors']:
        # stability run: the same unit under two other Z3 seeds and a 4x resource limit must give the same verdict per function
        base = set(x['fn'].qual for x in cl['failures'])
        for extra in (['--rlimit', '40', '--smt-option', 'smt.random_seed=11'], ['--rlimit', '40', '--smt-option', 'smt.random_seed=23']):
            r2 = vx.run_verus(u.out, extra)
            c2 = vx.classify(u, u.fns, r2)
            seeds.append({'args': ' '.join(extra), 'verified': c2['verified'], 'same_verdict': set(x['fn'].qual for x in c2['failures']) == base})
    return {'unit': u, 'res': res, 'cl': cl, 'canary': can, 'new_trust': new_trust, 'wall_s': time.time() - t0, 'seeds': seeds}


def stability(u, fail_fns, tier):
    """re-run with larger rlimit and other seeds; returns set of fn quals that
    fail on *every* run (robust failures) and set that are unstable."""
    runs = []
    for extra in (['--rlimit', '40', '--smt-option', 'smt.random_seed=1'], ['--rlimit', '40', '--smt-option', 'smt.random_seed=2']):
        r = vx.run_verus(u.out, extra)
        c = vx.classify(u, u.fns, r)
        runs.append(set(x['fn'].qual for x in c['failures']))
    robust = set(q for q in fail_fns if all(q in r for r in runs))
    unstable = set(fail_fns) - robust
    return robust, unstable


def main(argv):
    if len(argv) < 2:
        print(__doc__)
        return 2
    prop = argv[1]
    tier = os.environ.get('VERIF_TIER', 'quick')
    if '--tier' in argv:
        tier = argv[argv.index('--tier') + 1]
    seed = int(os.environ.get('VERIF_SEED', '0') or 0)
    if '--replay' in argv:
        import replay
        return replay.main(argv[argv.index('--replay') + 1])
    if prop not in P.PROPS:
        print('unknown or not-applicable property %s' % prop, file=sys.stderr)
        return 2
    cfg = P.PROPS[prop]
    t0 = time.time()
    known = load_known()
    undecided = []
    violations = []
    known_hits = []
    obligations = 0
    discharged = 0
    samples = []
    fn_rows = []
    trusted = []
    checker_cmds = []
    solver_ms = 0
    extraction = []
    bounded = []
    canary_total = 0
    kani_rows = []
    pending = []
    known_obligations = []
    stability_runs = []
    try:
        # ---------------- Engine A ----------------
        results = {}
        units = cfg.get('units', [])
        with cf.ThreadPoolExecutor(max_workers=max(1, len(units))) as ex:
            futs = {un: ex.submit(run_unit, un, tier) for un in units}
            for un, fu in futs.items():
                try:
                    results[un] = fu.result()
                except LostAnchor as e:
                    undecided.append('lost anchor in unit %s: %s' % (un, e))
                except vx.ToolLimit as e:
                    undecided.append('tool limit in unit %s: %s' % (un, e))
        for un, r in results.items():
            u, cl, res = r['unit'], r['cl'], r['res']
            lines = u.text.split('\n')
            checker_cmds.append(res['cmd'])
            mine = [f for f in u.fns if fn_has_prop(f, prop) and f.kind in ('exec', 'proof') and not f._external]
            if not mine:
                undecided.append('unit %s has no function tagged %s (template lost an obligation)' % (un, prop))
                continue
            if cl['tool_errors']:
                for te in cl['tool_errors'][:5]:
                    undecided.append('unit %s: %s: %s (line %s, fn %s)' % (un, te['kind'], te['message'][:200], te.get('line'), te.get('fn')))
                continue
            if cl['verified'] is None:
                undecided.append('unit %s: verus produced no verification result (rc=%s): %s' % (un, res['rc'], res['stderr'][-400:]))
                continue
            if r['new_trust']:
                undecided.append('unit %s: trusted-base scan found entries not in specs/%s.trusted: %s' % (un, un, r['new_trust']))
                continue
            if any(not sd['same_verdict'] for sd in r.get('seeds', [])):
                undecided.append('unit %s: verdict changes with the Z3 seed (unstable proof): %s' % (un, r['seeds']))
                continue
            stability_runs += [dict(sd, unit=un) for sd in r.get('seeds', [])]
            can = r['canary']
            canary_total += can['checked']
            vac = [q for q in can['vacuous'] if any(f.qual == q and fn_has_prop(f, prop) for f in u.fns)]
            if vac:
                undecided.append('unit %s: vacuity canary: contradictory precondition (assert(false) verified) in %s; other errors of the canary run: %s' % (un, vac, can['other_errors']))
                continue
            imp = {}
            for k, n in u.trusted:
                if k.startswith('imported-contract['):
                    imp.setdefault(k[len('imported-contract['):-1], []).append(n)
                else:
                    trusted.append('%s: %s %s' % (un, k, n))
            for src_unit, names in imp.items():
                trusted.append('%s: %d function contracts imported from unit %s (proved there against the real bodies; used here as assumptions): %s ...'
                               % (un, len(names), src_unit, ', '.join(sorted(set(names))[:12])))
            # failures attributed to this property
            my_fail = []
            for fl in cl['failures']:
                lab = attribute(fl['fn'], fl, prop, lines)
                if lab is not None:
                    my_fail.append((fl, lab))
            failing_quals = set(fl['fn'].qual for fl, _ in my_fail)
            robust, unstable = (set(), set())
            if failing_quals:
                robust, unstable = stability(u, failing_quals, tier)
                if unstable:
                    undecided.append('unit %s: unstable proof (fails on some seeds only): %s' % (un, sorted(unstable)))
            for f in mine:
                bds = vx.fn_breakdown(f, cl['breakdown'])
                t_us = sum(b.get('time-micros', 0) for b in bds)
                solver_ms += t_us / 1000.0
                n_ob = 1 + sum(1 for pls in f.clause_labels.values() for (pp, _) in pls if pp == prop)
                failed_here = [(fl, lab) for fl, lab in my_fail if fl['fn'] is f]
                known_here = [(fl, lab) for fl, lab in failed_here if match_known(known, prop, un, f, fl, lab, lines)]
                ok = not failed_here
                if known_here and len(known_here) == len(failed_here):
                    # an obligation listed as an open known finding is reported separately, not as part of the proof claim
                    known_obligations.append('%s :: %s' % (f.qual, '; '.join(l for _, l in known_here)))
                    n_ob -= 1
                    obligations += n_ob
                    discharged += n_ob
                else:
                    obligations += n_ob
                    if ok:
                        discharged += n_ob
                    else:
                        discharged += max(0, n_ob - len(failed_here))
                fn_rows.append({'unit': un, 'fn': f.qual, 'mode': f.kind, 'source': f.source, 'sha256': f.sha256,
                                'rewrites': ['%s %s' % x for x in f.rewrites], 'solver_us': t_us, 'verified': ok,
                                'clauses': sorted(l for pls in f.clause_labels.values() for (pp, l) in pls if pp == prop)})
            for fl, lab in my_fail:
                f = fl['fn']
                if f.qual in unstable:
                    continue
                k = match_known(known, prop, un, f, fl, lab, lines)
                if k:
                    known_hits.append((k, fl))
                else:
                    pending.append({'engine': 'verus', 'unit': un, 'fn': f.qual, 'source': f.source, 'label': lab,
                                    'message': fl['message'], 'rendered': fl['rendered'], 'kind': failure_kind(fl['message']),
                                    'ghost_lost': list(f.ghost_lost), 'mirrors': P.mirrors_for(un, f.qual, failure_kind(fl['message']))})
            for it in u.items:
                extraction.append(it)
        # ---------------- Engine B ----------------
        kh = []
        if cfg.get('kani'):
            kh = list(cfg['kani'].get(tier) or cfg['kani'].get('quick', []))
        if tier != 'thorough':
            for pv in pending:
                pv['mirrors'] = [m for m in pv['mirrors'] if m not in P.HEAVY_HARNESSES]
        mirror_needed = sorted(set(m for pv in pending for m in pv['mirrors']))
        kres_by = {}
        # the property's own harnesses run even when a Verus unit is undecided (lost anchor, unsupported construct):
        # a harness that FAILS on the real code is conclusive on its own, a harness that passes leaves the run undecided
        verus_undecided = list(undecided)
        if kh or mirror_needed:
            want = sorted(set(kh + mirror_needed))
            try:
                for h in kx.run_harnesses(want, tier):
                    kres_by[h['name']] = h
            except kx.KaniLimit as e:
                undecided.append('kani: %s' % e)
        # (1) arbitration of failed Verus obligations by their Kani mirrors
        for pv in pending:
            ms = [kres_by[m] for m in pv['mirrors'] if m in kres_by]
            failed = [m for m in ms if m['status'] == 'FAILED']
            if failed:
                m0 = failed[0]
                pv['harness'] = m0['name']
                pv['witness'] = m0.get('witness')
                pv['message'] += ' || Kani mirror %s FAILED: %s' % (m0['name'], '; '.join(m0.get('failed', []))[:300])
                violations.append(pv)
            else:
                # only a COMPLETE mirror (loop free, full input domain) that holds can overrule a failed Verus obligation;
                # a bounded mirror that holds within its bound says nothing about the inputs beyond it
                conclusive_ok = bool(ms) and all(m['status'] == 'SUCCESSFUL' and m.get('mode') == 'complete' for m in ms)
                ws = nx.witnesses_for(pv['unit'], pv['fn'], pv['label']) if not conclusive_ok else []
                hit = []
                if ws:
                    try:
                        nres = nx.run([w['test'] for w in ws])
                    except Exception as e:  # a broken witness build must not mask the verifier's verdict
                        nres = {}
                        pv['message'] += ' || native witness could not be run: %s' % str(e)[:200]
                    hit = [(n, r) for n, r in nres.items() if r[0]]
                if hit:
                    pv['witness'] = {'native_test': hit[0][0], 'log': hit[0][1][2], 'cmd': hit[0][1][3], 'test': None}
                    pv['message'] += ' || native witness test %s FAILS on the real code' % hit[0][0]
                    violations.append(pv)
                elif conclusive_ok:
                    undecided.append('proof limit: Verus failed `%s` in %s but its Kani mirror(s) %s hold -> not reported as a violation'
                                     % (pv['label'][:120], pv['fn'], [m['name'] for m in ms]))
                elif pv['ghost_lost']:
                    undecided.append('Verus failed `%s` in %s after proof-hint anchors were lost (%s); no conclusive mirror or witness -> undecided'
                                     % (pv['label'][:120], pv['fn'], pv['ghost_lost']))
                else:
                    if ms:
                        pv['message'] += ' || Kani mirror(s) not conclusive: %s' % [(m['name'], m['status'], m.get('mode'), m.get('bound')) for m in ms]
                    violations.append(pv)
        # (2) the property's own harnesses
        for hn in kh:
            h = kres_by.get(hn)
            if h is None:
                undecided.append('kani harness %s produced no result' % hn)
                continue
            checker_cmds.append(h['cmd'])
            row = {'harness': h['name'], 'status': h['status'], 'time_s': h['time_s'], 'mode': h['mode'], 'bound': h.get('bound'), 'checks': h.get('checks')}
            kani_rows.append(row)
            if h['mode'] == 'complete':
                obligations += 1
            if h['status'] == 'SUCCESSFUL':
                if h['mode'] == 'complete':
                    discharged += 1
                else:
                    bounded.append('%s: bounded (%s) - not counted as proved' % (h['name'], h.get('bound')))
            elif h['status'] == 'FAILED':
                kk = None
                for k in known:
                    if k.get('status') == 'open' and prop in [k['property']] + k.get('also_properties', []) and k.get('engine') == 'kani' and k.get('harness') == h['name'] \
                            and all(any(kf in fc for kf in k.get('failed_checks', [])) for fc in h.get('failed', [])):
                        kk = k
                already = any(v.get('harness') == h['name'] for v in violations)
                if kk:
                    known_hits.append((kk, {'message': 'kani harness %s' % h['name']}))
                elif not already:
                    v = {'engine': 'kani', 'unit': h.get('file'), 'fn': h['name'], 'label': 'kani:' + h['name'], 'harness': h['name'],
                         'message': '; '.join(h.get('failed', []))[:600], 'rendered': h.get('log_tail', ''), 'kind': 'kani',
                         'witness': h.get('witness')}
                    # an end-to-end native test registered for this harness (`//@witness kani <harness>`) shows the consequence on the public API
                    ws = nx.witnesses_for('kani', h['name'], None)
                    if ws:
                        try:
                            nres = nx.run([w['test'] for w in ws])
                            hit = [(n, r) for n, r in nres.items() if r[0]]
                            if hit:
                                v['message'] += ' || native witness test %s FAILS on the real code' % hit[0][0]
                                if not v.get('witness'):
                                    v['witness'] = {'native_test': hit[0][0], 'log': hit[0][1][2], 'cmd': hit[0][1][3], 'test': None}
                                else:
                                    v['witness'] = dict(v['witness'], native_test=hit[0][0], native_log=hit[0][1][2][-3000:])
                        except Exception as e:
                            v['message'] += ' || native witness could not be run: %s' % str(e)[:200]
                    violations.append(v)
            else:
                undecided.append('kani harness %s: %s' % (h['name'], h['status']))
    except LostAnchor as e:
        undecided.append('lost anchor: %s' % e)
    except vx.ToolLimit as e:
        undecided.append('tool limit: %s' % e)

    wall = time.time() - t0
    # ---------------- report ----------------
    import replay as RP
    rc = 0
    viol_n = 0
    out_lines = []
    printed = set()
    for k, fl in known_hits:
        key = k.get('id') or k.get('what_fails')
        if key in printed:
            continue
        printed.add(key)
        out_lines.append('KNOWN-FINDING: property=%s %s' % (prop, k['what_fails']))
    if violations:
        for v in violations:
            path, found = RP.write_replay(prop, v, tier)
            viol_n += 1
            out_lines.append('VIOLATION property=%s replay=%s%s' % (prop, path, '' if found else ' no-failing-input-found'))
        rc = 1
    if undecided and rc == 0:
        rc = 2
    ev = {
        'property_id': prop, 'tier': tier, 'seed': seed, 'level': cfg.get('level', 'proof'),
        'coverage': {
            'obligations': obligations, 'discharged': discharged,
            'checker_cmd': (' && '.join(checker_cmds[:6]) or 'none').replace('/run-%d' % os.getpid(), ''),
            'trusted_base': sorted(set(trusted)) + cfg.get('trusted_extra', []),
            'functions_under_contract': fn_rows,
            'pasted_items': extraction,
            'kani_harnesses': kani_rows,
            'bounded_standins': bounded,
            'vacuity_canaries_checked': canary_total,
            'stability_runs': stability_runs,
            'solver_time_ms': round(solver_ms, 1),
            'back_ends': sorted(set((['verus 0.2026.09.13 / z3'] if cfg.get('units') else []) + (['kani 0.68 / cbmc 6.11'] if kani_rows else []))),
            'undecided': undecided,
            'known_findings_hit': [k.get('id') for k, _ in known_hits],
            'obligations_excluded_as_open_known_findings': known_obligations,
            'not_applicable_parts': cfg.get('not_applicable_parts', []),
            'samples': [r['fn'] + ' <= ' + (r['source'] or 'ghost lemma') for r in fn_rows[:8]] or ['none'],
            'explanation': cfg.get('explanation', ''),
        },
        'assumptions': cfg.get('assumptions', []) + P.COMMON_ASSUMPTIONS,
        'wall_s': round(wall, 2),
        'violations': viol_n,
    }
    if rc == 2:
        # an undecided run must not be read as proof-level evidence
        ev['level'] = 'other'
        ev['coverage']['explanation'] = 'UNDECIDED (exit 2): ' + '; '.join(undecided)[:1500]
    evdir = os.environ.get('VERIF_EVIDENCE_DIR', os.path.join(VERIF, 'evidence'))
    os.makedirs(evdir, exist_ok=True)
    with open(os.path.join(evdir, prop + '.json'), 'w') as fh:
        json.dump(ev, fh, indent=1)
    for l in out_lines:
        print(l)
    for u_ in undecided:
        print('UNDECIDED: %s' % u_, file=sys.stderr)
    print('%s tier=%s obligations=%d discharged=%d known=%d violations=%d undecided=%d wall=%.1fs' % (
        prop, tier, obligations, discharged, len(printed), viol_n, len(undecided), wall), file=sys.stderr)
    return rc


def _main_isolated(argv):
    """each run expands its templates into its own directory (build/run-<pid>), so checks of different properties
    that share a unit can run side by side; the generated files are published to build/ (atomic rename) afterwards"""
    import shutil
    if 'VERIF_BUILD_DIR' in os.environ or '--replay' in argv:
        return main(argv)
    shared = vx.BUILD
    run_dir = os.path.join(shared, 'run-%d' % os.getpid())
    os.makedirs(run_dir, exist_ok=True)
    vx.BUILD = run_dir
    try:
        return main(argv)
    finally:
        try:
            for fn in os.listdir(run_dir):
                os.replace(os.path.join(run_dir, fn), os.path.join(shared, fn))
            shutil.rmtree(run_dir, ignore_errors=True)
        except OSError:
            pass


if __name__ == '__main__':
    sys.exit(_main_isolated(sys.argv))
