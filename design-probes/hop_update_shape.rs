use vstd::prelude::*;
verus! {

pub struct Hop { pub ttl: u8, pub total_sent: usize, pub total_recv: usize, pub samples: Vec<u64>, pub javg: f64 }
pub struct FlowState { pub max_samples: usize, pub lowest_ttl: u8, pub hops: Vec<Hop> }

#[verifier::external_body]
fn havoc_f64(x: &mut f64) { }

impl FlowState {
    fn update_lowest_ttl(&mut self, ttl: u8)
        ensures final(self).hops == old(self).hops, final(self).max_samples == old(self).max_samples,
    {
        if self.lowest_ttl == 0 {
            self.lowest_ttl = ttl;
        } else {
            self.lowest_ttl = self.lowest_ttl.min(ttl);
        }
    }
}

fn upd(state: &mut FlowState, ttl: u8, dur: u64)
    requires 1 <= ttl <= 254, old(state).hops.len() == 254,
        old(state).hops[ttl as int - 1].total_sent < 1000000,
        old(state).hops[ttl as int - 1].total_recv < 1000000,
        old(state).hops[ttl as int - 1].samples.len() < 1000000,
    ensures final(state).hops.len() == 254,
        final(state).hops[ttl as int - 1].total_sent == old(state).hops[ttl as int - 1].total_sent + 1,
        forall|i: int| 0 <= i < 254 && i != ttl as int - 1 ==> final(state).hops[i] == old(state).hops[i],
{
    state.update_lowest_ttl(ttl);
    let index = usize::from(ttl) - 1;
    let hop = &mut state.hops[index];
    hop.ttl = ttl;
    hop.total_sent += 1;
    hop.total_recv += 1;
    havoc_f64(&mut hop.javg);
    hop.samples.insert(0, dur);
    if hop.samples.len() > state.max_samples {
        hop.samples.pop();
    }
}

} // verus!
fn main() {}
