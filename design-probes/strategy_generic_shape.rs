use vstd::prelude::*;
verus! {

pub struct Probe { pub ttl: u8 }
pub struct Round<'a> { pub probes: &'a [Probe], pub largest_ttl: u8 }
impl<'a> Round<'a> {
    pub const fn new(probes: &'a [Probe], largest_ttl: u8) -> (r: Self)
        ensures r.probes == probes, r.largest_ttl == largest_ttl
    { Self { probes, largest_ttl } }
}
pub struct Error { pub code: u8 }
pub trait Network {
    fn send_probe(&mut self, probe: Probe) -> Result<(), Error>;
    fn recv_probe(&mut self) -> Result<Option<u16>, Error>;
}
pub struct St { pub buf: [Probe; 4], pub n: usize, pub hits: usize }
impl St {
    pub fn probes(&self) -> (r: &[Probe]) requires self.n <= 4 ensures r@ == self.buf@.subrange(0, self.n as int) { &self.buf[..self.n] }
    pub fn in_round(&self, s: u16) -> bool { s < 4 }
    pub fn complete(&mut self, s: u16) requires old(self).hits < 1000 ensures final(self).hits == old(self).hits + 1, final(self).n == old(self).n { self.hits += 1; }
}
pub struct Strategy<F> { pub max: u8, pub publish: F }

impl<F: Fn(&Round<'_>)> Strategy<F> {
    fn publish_trace(&self, state: &St)
        requires state.n <= 4, forall|r: &Round<'_>| call_requires(self.publish, (r,))
    {
        let probes = state.probes();
        (self.publish)(&Round::new(probes, self.max));
    }
    fn recv_response<N: Network>(&self, network: &mut N, st: &mut St) -> (res: Result<(), Error>)
        requires old(st).hits < 1000
        ensures res is Ok ==> final(st).hits <= old(st).hits + 1, final(st).n == old(st).n
    {
        let next = network.recv_probe()?;
        if let Some(resp) = next {
            if st.in_round(resp) {
                st.complete(resp);
            }
        }
        Ok(())
    }
}

} // verus!
fn main() {}
