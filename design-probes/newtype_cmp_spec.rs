use vstd::prelude::*;
use vstd::std_specs::cmp::*;
use core::cmp::Ordering;
verus! {
#[derive(Clone, Copy, PartialEq, Eq, PartialOrd, Ord)]
pub struct TimeToLive(pub u8);
impl PartialEqSpecImpl for TimeToLive {
    open spec fn obeys_eq_spec() -> bool { true }
    open spec fn eq_spec(&self, o: &TimeToLive) -> bool { self.0 == o.0 }
}
impl PartialOrdSpecImpl for TimeToLive {
    open spec fn obeys_partial_cmp_spec() -> bool { true }
    open spec fn partial_cmp_spec(&self, o: &TimeToLive) -> Option<Ordering> {
        Some(if self.0 < o.0 { Ordering::Less } else if self.0 == o.0 { Ordering::Equal } else { Ordering::Greater })
    }
}
impl OrdSpecImpl for TimeToLive {
    open spec fn obeys_cmp_spec() -> bool { true }
    open spec fn cmp_spec(&self, o: &Self) -> Ordering {
        if self.0 < o.0 { Ordering::Less } else if self.0 == o.0 { Ordering::Equal } else { Ordering::Greater }
    }
}
fn lt(a: TimeToLive, b: TimeToLive) -> (r: bool) ensures r == (a.0 < b.0) { a < b }
fn le(a: TimeToLive, b: TimeToLive) -> (r: bool) ensures r == (a.0 <= b.0) { a <= b }
fn ge(a: TimeToLive, b: TimeToLive) -> (r: bool) ensures r == (a.0 >= b.0) { a >= b }
fn mx(a: TimeToLive, b: TimeToLive) -> (r: TimeToLive) ensures r.0 == if a.0 >= b.0 { a.0 } else { b.0 } { a.max(b) }
fn mn(a: TimeToLive, b: TimeToLive) -> (r: TimeToLive) ensures r.0 == if a.0 <= b.0 { a.0 } else { b.0 } { a.min(b) }
fn eq(a: TimeToLive, b: TimeToLive) -> (r: bool) ensures r == (a.0 == b.0) { a == b }
}
fn main() {}
