#!/usr/bin/env python3
"""scratch prototype: paste real fn bodies into a template. Directive:
   //@body <file> :: <fn name> [:: <nth occurrence, 1-based>]
"""
import re,sys
def find_fn(src, name, nth=1):
    pat=re.compile(r'\bfn\s+'+re.escape(name)+r'\b')
    ms=list(pat.finditer(src))
    m=ms[nth-1]
    i=m.end(); depth_par=0
    # find body start: first '{' at paren depth 0 after signature (skip generics/where)
    while True:
        c=src[i]
        if c=='(': depth_par+=1
        elif c==')': depth_par-=1
        elif c=='{' and depth_par==0: break
        elif c==';' and depth_par==0: raise SystemExit('no body for '+name)
        i+=1
    start=i; depth=0
    while True:
        c=src[i]
        if c=='{': depth+=1
        elif c=='}':
            depth-=1
            if depth==0: break
        i+=1
    return src[m.start():start], src[start:i+1]
def rewrite(body):
    body=re.sub(r'^\s*tracing::\w+!\(.*?\);\s*$','',body,flags=re.M)
    body=re.sub(r'(\w[\w\.]*)\s*\|=\s*([^;]+);', r'\1 = \1 || \2;', body)
    body=body.replace('debug_assert!','assert!') if False else re.sub(r'^\s*debug_assert!\((?:[^;]|\n)*?\);\s*$','',body,flags=re.M)
    body=body.replace('SystemTime::now()','system_time_now()')
    return body
def main(tpl, out, root='/repo/'):
    t=open(tpl).read()
    def sub(m):
        parts=[p.strip() for p in m.group(1).split('::')]
        f,name=parts[0],parts[1]; nth=int(parts[2]) if len(parts)>2 else 1
        sig,body=find_fn(open(root+f).read(), name, nth)
        return rewrite(body)
    o=re.sub(r'^[ \t]*//@body (.*)$', sub, t, flags=re.M)
    open(out,'w').write(o)
main(sys.argv[1], sys.argv[2])
