use vstd::prelude::*;
verus! {

// trusted shim (same std fn, contract assumed)
#[verifier::external_body]
fn u16_from_be_bytes(b: [u8; 2]) -> (r: u16)
    ensures r == (b[0] as int) * 256 + (b[1] as int)
{ u16::from_be_bytes(b) }

#[verifier::external_body]
fn slice2_try_into_unwrap(s: &[u8]) -> (r: [u8; 2])
    requires s.len() == 2
    ensures r[0] == s[0], r[1] == s[1]
{ s.try_into().unwrap() }

pub open spec fn word(data: Seq<u8>, i: int) -> int {
    data[2*i] as int * 256 + data[2*i+1] as int
}
// sum of the first n big-endian words of data, skipping word `ign`
pub open spec fn sum_words(data: Seq<u8>, n: int, ign: int) -> int
    decreases n
{
    if n <= 0 { 0 } else { sum_words(data, n-1, ign) + if n-1 == ign { 0 } else { word(data, n-1) } }
}
pub open spec fn tail(data: Seq<u8>, ign: int) -> int {
    if data.len() % 2 == 1 && data.len() / 2 != ign { data[data.len()-1] as int * 256 } else { 0 }
}
pub open spec fn spec_sum(data: Seq<u8>, ign: int) -> int {
    sum_words(data, data.len() as int / 2, ign) + tail(data, ign)
}

proof fn lemma_sum_bound(data: Seq<u8>, n: int, ign: int)
    requires 0 <= n, 2*n <= data.len()
    ensures 0 <= sum_words(data, n, ign) <= n * 65535
    decreases n
{
    if n > 0 { lemma_sum_bound(data, n-1, ign); }
}

fn sum_be_words(data: &[u8], ignore_word: usize) -> (sum: u32)
    requires data.len() <= 65535
    ensures sum == spec_sum(data@, ignore_word as int)
{
    if data.is_empty() {
        return 0;
    }
    let len = data.len();
    let mut cur_data = data;
    let mut sum = 0u32;
    let mut i = 0;
    while cur_data.len() >= 2
        invariant
            len == data.len(), len <= 65535,
            2 * (i as int) + cur_data.len() == len,
            cur_data@ == data@.subrange(2 * (i as int), len as int),
            sum == sum_words(data@, i as int, ignore_word as int),
        decreases cur_data.len()
    {
        proof { lemma_sum_bound(data@, i as int, ignore_word as int); }
        if i != ignore_word {
            sum += u32::from(u16_from_be_bytes(slice2_try_into_unwrap(&cur_data[0..2])));
        }
        cur_data = &cur_data[2..];
        i += 1;
    }
    if i != ignore_word && len & 1 != 0 {
        proof {
            lemma_sum_bound(data@, i as int, ignore_word as int);
            assert(len & 1 != 0 ==> len % 2 == 1) by (bit_vector);
            let b = data[len - 1];
            assert((b as u32) << 8 == (b as u32) * 256) by (bit_vector);
        }
        sum += u32::from(data[len - 1]) << 8;
    }
    proof {
        assert(len & 1 == 0 ==> len % 2 == 0) by (bit_vector);
        assert(len & 1 != 0 ==> len % 2 == 1) by (bit_vector);
    }
    sum
}

} // verus!
fn main() {}
