use vstd::prelude::*;
verus! {

#[derive(Clone, Copy, PartialEq, Eq)]
pub struct TimeToLive(pub u8);
#[derive(Clone, Copy, PartialEq, Eq)]
pub struct Sequence(pub u16);
impl vstd::std_specs::ops::SubSpecImpl for Sequence {
    open spec fn obeys_sub_spec() -> bool { true }
    open spec fn sub_req(self, rhs: Sequence) -> bool { self.0 >= rhs.0 }
    open spec fn sub_spec(self, rhs: Sequence) -> Sequence { Sequence((self.0 - rhs.0) as u16) }
}
impl core::ops::Sub for Sequence { type Output = Sequence; fn sub(self, rhs: Sequence) -> Sequence { Sequence(self.0 - rhs.0) } }

pub struct Flags { pub bits: u32 }
pub struct Probe { pub sequence: Sequence, pub ttl: TimeToLive, pub flags: Flags }
pub struct ProbeComplete { pub sequence: Sequence, pub ttl: TimeToLive, pub host: u32 }
pub enum ProbeStatus { NotSent, Skipped, Awaited(Probe), Complete(ProbeComplete) }

impl Clone for Flags { fn clone(&self) -> (r: Self) ensures r == *self { Flags { bits: self.bits } } }
impl Clone for Probe { fn clone(&self) -> (r: Self) ensures r == *self { Probe { sequence: self.sequence, ttl: self.ttl, flags: self.flags.clone() } } }
impl Clone for ProbeComplete { fn clone(&self) -> (r: Self) ensures r == *self { ProbeComplete { sequence: self.sequence, ttl: self.ttl, host: self.host } } }
impl Clone for ProbeStatus {
    fn clone(&self) -> (r: Self) ensures r == *self {
        match self {
            ProbeStatus::NotSent => ProbeStatus::NotSent,
            ProbeStatus::Skipped => ProbeStatus::Skipped,
            ProbeStatus::Awaited(p) => ProbeStatus::Awaited(p.clone()),
            ProbeStatus::Complete(p) => ProbeStatus::Complete(p.clone()),
        }
    }
}
impl Probe {
    pub fn complete(self, host: u32) -> (r: ProbeComplete)
        ensures r.sequence == self.sequence, r.ttl == self.ttl, r.host == host
    { ProbeComplete { sequence: self.sequence, ttl: self.ttl, host } }
}

pub struct Resp { pub sequence: Sequence, pub addr: u32, pub is_target: bool }

pub struct TracerState {
    pub buffer: [ProbeStatus; 512],
    pub sequence: Sequence,
    pub round_sequence: Sequence,
    pub target_found: bool,
    pub max_received_ttl: Option<TimeToLive>,
}

impl TracerState {
    pub open spec fn wf(&self) -> bool {
        self.round_sequence.0 <= self.sequence.0 && self.sequence.0 - self.round_sequence.0 <= 512
    }
    pub open spec fn in_round_spec(&self, s: Sequence) -> bool {
        s.0 >= self.round_sequence.0 && s.0 - self.round_sequence.0 < 512
    }
    pub fn probe_at(&self, sequence: Sequence) -> (r: ProbeStatus)
        requires self.in_round_spec(sequence)
        ensures r == self.buffer[(sequence.0 - self.round_sequence.0) as int]
    {
        self.buffer[usize::from((sequence - self.round_sequence).0)].clone()
    }

    pub fn complete_probe(&mut self, resp: Resp)
        requires old(self).wf(), old(self).in_round_spec(resp.sequence)
        ensures
            final(self).wf(),
            ({
                let idx = (resp.sequence.0 - old(self).round_sequence.0) as int;
                match old(self).buffer[idx] {
                    ProbeStatus::Awaited(p) =>
                        final(self).buffer@ == old(self).buffer@.update(idx,
                            ProbeStatus::Complete(ProbeComplete { sequence: p.sequence, ttl: p.ttl, host: resp.addr }))
                        && final(self).target_found == (old(self).target_found || resp.is_target),
                    _ => *final(self) == *old(self),
                }
            }),
    {
        let probe = self.probe_at(resp.sequence);
        let awaited = match probe {
            ProbeStatus::Awaited(awaited) => awaited,
            ProbeStatus::Complete(_) => {
                return;
            }
            _ => {
                return;
            }
        };
        let completed = awaited.complete(resp.addr);
        let ttl = completed.ttl;
        self.buffer[usize::from((resp.sequence - self.round_sequence).0)] =
            ProbeStatus::Complete(completed);
        self.max_received_ttl = match self.max_received_ttl {
            None => Some(ttl),
            Some(max_received_ttl) => Some(if max_received_ttl.0 >= ttl.0 { max_received_ttl } else { ttl }),
        };
        self.target_found = self.target_found || resp.is_target;
    }
}

pub struct Hop { pub total_sent: usize }
fn apply(hops: &mut Vec<Hop>, probes: &[ProbeStatus])
    requires old(hops).len() == 254, forall|i:int| 0<=i<254 ==> old(hops)[i].total_sent + probes.len() < usize::MAX
    ensures final(hops).len() == 254
{
    for probe in iter: probes
        invariant hops.len() == 254, forall|i:int| 0<=i<254 ==> hops[i].total_sent + (probes.len() - iter.index@) < usize::MAX
    {
        match probe {
            ProbeStatus::Awaited(a) => { if a.ttl.0 >= 1 && a.ttl.0 <= 254 { let hop = &mut hops[usize::from(a.ttl.0) - 1]; hop.total_sent += 1; } }
            _ => {}
        }
    }
}

} // verus!
fn main() {}
