use vstd::prelude::*;
verus! {

pub enum Buffer<'a> { Immutable(&'a [u8]), Mutable(&'a mut [u8]) }
impl Buffer<'_> {
    pub open spec fn view(&self) -> Seq<u8> { match self { Buffer::Immutable(p) => p@, Buffer::Mutable(p) => p@ } }
    pub open spec fn is_mut(&self) -> bool { self is Mutable }
    pub fn read(&self, offset: usize) -> (r: u8)
        requires offset < self.view().len() ensures r == self.view()[offset as int]
    { match &self { Buffer::Immutable(packet) => packet[offset], Buffer::Mutable(packet) => packet[offset] } }
    pub fn write(&mut self, offset: usize) -> (r: &mut u8)
        requires old(self).is_mut(), offset < old(self).view().len()
        ensures *r == old(self).view()[offset as int], final(self).is_mut(),
            final(self).view() == old(self).view().update(offset as int, *final(r)),
    { match self { Buffer::Immutable(_) => panic!("ro"), Buffer::Mutable(packet) => &mut packet[offset] } }
}

// generic RFC-positioned spec: byte b of the buffer after storing the low `w` bits of `val`
// at bit position `bit` (0 = msb of byte `off`), big-endian, field may span bytes.
// generated per field from the table as per-byte (mask, right-shift-of-val, left-shift) triples:
pub open spec fn put_byte(old_b: u8, mask: u8, v: u8) -> u8 { (old_b & !mask) | (v & mask) }

pub struct Ipv6Packet<'a> { pub buf: Buffer<'a> }
const TRAFFIC_CLASS_OFFSET: usize = 0;
impl Ipv6Packet<'_> {
    pub open spec fn bytes(&self) -> Seq<u8> { self.buf.view() }
    pub open spec fn wf(&self) -> bool { self.bytes().len() >= 40 }

    // table: traffic_class: byte 0 bits 4..7 (mask 0x0f) <- val>>4 ; byte 1 bits 0..3 (mask 0xf0) <- val<<4
    pub fn set_traffic_class(&mut self, val: u8)
        requires old(self).wf(), old(self).buf.is_mut()
        ensures final(self).wf(), final(self).buf.is_mut(),
            final(self).bytes() == old(self).bytes()
                .update(0, put_byte(old(self).bytes()[0], 0x0f, val >> 4))
                .update(1, put_byte(old(self).bytes()[1], 0xf0, val << 4)),
    {
        *self.buf.write(TRAFFIC_CLASS_OFFSET) =
            (self.buf.read(TRAFFIC_CLASS_OFFSET) & 0xf0) | ((val & 0xf0) >> 4);
        *self.buf.write(TRAFFIC_CLASS_OFFSET + 1) =
            (self.buf.read(TRAFFIC_CLASS_OFFSET + 1) & 0xf) | ((val & 0xf) << 4);
        proof {
            assert(forall|o: u8, v: u8| #![auto] ((o & 0xf0) | ((v & 0xf0) >> 4)) == ((o & !0x0fu8) | ((v >> 4) & 0x0f))) by (bit_vector);
            assert(forall|o: u8, v: u8| #![auto] ((o & 0xf) | ((v & 0xf) << 4)) == ((o & !0xf0u8) | ((v << 4) & 0xf0))) by (bit_vector);
        }
    }

    pub fn get_traffic_class(&self) -> (r: u8)
        requires self.wf()
        ensures r == ((self.bytes()[0] & 0x0f) << 4) | ((self.bytes()[1] & 0xf0) >> 4)
    {
        let b0 = ((self.buf.read(TRAFFIC_CLASS_OFFSET)) & 0xf) << 4;
        let b1 = ((self.buf.read(TRAFFIC_CLASS_OFFSET + 1)) & 0xf0) >> 4;
        b0 | b1
    }
}

// round-trip lemma from the two contracts only (no bodies): get(set(v)) == v
proof fn lemma_tc_roundtrip(o0: u8, o1: u8, v: u8)
    ensures ((put_byte(o0, 0x0f, v >> 4) & 0x0f) << 4) | ((put_byte(o1, 0xf0, v << 4) & 0xf0) >> 4) == v
{
    assert((((o0 & !0x0fu8) | ((v >> 4) & 0x0f)) & 0x0f) << 4 | (((o1 & !0xf0u8) | ((v << 4) & 0xf0)) & 0xf0) >> 4 == v) by (bit_vector);
}

} // verus!
fn main() {}
